// Package simhash replaces "hash/maphash" in instrumented code: seeds come from
// the simulator's decision tape, so jitter derived from them replays.
package simhash

import "oras.land/oras-go/v2/zsim/simrt"

type Seed struct{ v uint64 }

func MakeSeed() Seed { return Seed{simrt.Rand64()} }

type Hash struct {
	s   Seed
	acc uint64
}

func (h *Hash) SetSeed(s Seed) { h.s = s; h.acc = 0 }
func (h *Hash) Seed() Seed     { return h.s }
func (h *Hash) Reset()         { h.acc = 0 }
func (h *Hash) Sum64() uint64  { return simrt.Mix(h.s.v, h.acc) }
func (h *Hash) Write(b []byte) (int, error) {
	for _, c := range b {
		h.acc = h.acc*1099511628211 + uint64(c)
	}
	return len(b), nil
}
func (h *Hash) WriteString(s string) (int, error) { return h.Write([]byte(s)) }
func (h *Hash) WriteByte(b byte) error            { h.Write([]byte{b}); return nil }
