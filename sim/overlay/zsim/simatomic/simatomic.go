// Package simatomic replaces "sync/atomic" in instrumented code: the real
// operation, preceded by a scheduling point, so that sequences of atomic
// operations (load, then act) can be interleaved by the scheduler.
package simatomic

import (
	"sync/atomic"

	"oras.land/oras-go/v2/zsim/simrt"
)

func y(what string) { simrt.Yield("atomic." + what) }

func LoadInt32(p *int32) int32             { y("Load"); return atomic.LoadInt32(p) }
func LoadInt64(p *int64) int64             { y("Load"); return atomic.LoadInt64(p) }
func LoadUint32(p *uint32) uint32          { y("Load"); return atomic.LoadUint32(p) }
func LoadUint64(p *uint64) uint64          { y("Load"); return atomic.LoadUint64(p) }
func StoreInt32(p *int32, v int32)         { y("Store"); atomic.StoreInt32(p, v) }
func StoreInt64(p *int64, v int64)         { y("Store"); atomic.StoreInt64(p, v) }
func StoreUint32(p *uint32, v uint32)      { y("Store"); atomic.StoreUint32(p, v) }
func StoreUint64(p *uint64, v uint64)      { y("Store"); atomic.StoreUint64(p, v) }
func AddInt32(p *int32, d int32) int32     { y("Add"); return atomic.AddInt32(p, d) }
func AddInt64(p *int64, d int64) int64     { y("Add"); return atomic.AddInt64(p, d) }
func AddUint32(p *uint32, d uint32) uint32 { y("Add"); return atomic.AddUint32(p, d) }
func AddUint64(p *uint64, d uint64) uint64 { y("Add"); return atomic.AddUint64(p, d) }
func SwapInt32(p *int32, v int32) int32    { y("Swap"); return atomic.SwapInt32(p, v) }
func SwapInt64(p *int64, v int64) int64    { y("Swap"); return atomic.SwapInt64(p, v) }
func CompareAndSwapInt32(p *int32, o, n int32) bool {
	y("CAS")
	return atomic.CompareAndSwapInt32(p, o, n)
}
func CompareAndSwapInt64(p *int64, o, n int64) bool {
	y("CAS")
	return atomic.CompareAndSwapInt64(p, o, n)
}
func CompareAndSwapUint32(p *uint32, o, n uint32) bool {
	y("CAS")
	return atomic.CompareAndSwapUint32(p, o, n)
}
func CompareAndSwapUint64(p *uint64, o, n uint64) bool {
	y("CAS")
	return atomic.CompareAndSwapUint64(p, o, n)
}

type Bool struct{ v atomic.Bool }

func (b *Bool) Load() bool                    { y("Load"); return b.v.Load() }
func (b *Bool) Store(x bool)                  { y("Store"); b.v.Store(x) }
func (b *Bool) Swap(x bool) bool              { y("Swap"); return b.v.Swap(x) }
func (b *Bool) CompareAndSwap(o, n bool) bool { y("CAS"); return b.v.CompareAndSwap(o, n) }

type Int32 struct{ v atomic.Int32 }

func (b *Int32) Load() int32                    { y("Load"); return b.v.Load() }
func (b *Int32) Store(x int32)                  { y("Store"); b.v.Store(x) }
func (b *Int32) Add(d int32) int32              { y("Add"); return b.v.Add(d) }
func (b *Int32) Swap(x int32) int32             { y("Swap"); return b.v.Swap(x) }
func (b *Int32) CompareAndSwap(o, n int32) bool { y("CAS"); return b.v.CompareAndSwap(o, n) }

type Int64 struct{ v atomic.Int64 }

func (b *Int64) Load() int64                    { y("Load"); return b.v.Load() }
func (b *Int64) Store(x int64)                  { y("Store"); b.v.Store(x) }
func (b *Int64) Add(d int64) int64              { y("Add"); return b.v.Add(d) }
func (b *Int64) Swap(x int64) int64             { y("Swap"); return b.v.Swap(x) }
func (b *Int64) CompareAndSwap(o, n int64) bool { y("CAS"); return b.v.CompareAndSwap(o, n) }

type Uint32 struct{ v atomic.Uint32 }

func (b *Uint32) Load() uint32                    { y("Load"); return b.v.Load() }
func (b *Uint32) Store(x uint32)                  { y("Store"); b.v.Store(x) }
func (b *Uint32) Add(d uint32) uint32             { y("Add"); return b.v.Add(d) }
func (b *Uint32) CompareAndSwap(o, n uint32) bool { y("CAS"); return b.v.CompareAndSwap(o, n) }

type Uint64 struct{ v atomic.Uint64 }

func (b *Uint64) Load() uint64                    { y("Load"); return b.v.Load() }
func (b *Uint64) Store(x uint64)                  { y("Store"); b.v.Store(x) }
func (b *Uint64) Add(d uint64) uint64             { y("Add"); return b.v.Add(d) }
func (b *Uint64) CompareAndSwap(o, n uint64) bool { y("CAS"); return b.v.CompareAndSwap(o, n) }

type Pointer[T any] struct{ v atomic.Pointer[T] }

func (p *Pointer[T]) Load() *T                    { y("Load"); return p.v.Load() }
func (p *Pointer[T]) Store(x *T)                  { y("Store"); p.v.Store(x) }
func (p *Pointer[T]) Swap(x *T) *T                { y("Swap"); return p.v.Swap(x) }
func (p *Pointer[T]) CompareAndSwap(o, n *T) bool { y("CAS"); return p.v.CompareAndSwap(o, n) }

type Value struct{ v atomic.Value }

func (p *Value) Load() any                    { y("Load"); return p.v.Load() }
func (p *Value) Store(x any)                  { y("Store"); p.v.Store(x) }
func (p *Value) Swap(x any) any               { y("Swap"); return p.v.Swap(x) }
func (p *Value) CompareAndSwap(o, n any) bool { y("CAS"); return p.v.CompareAndSwap(o, n) }
