// Package simsync replaces "sync" in instrumented code. Mutex, RWMutex,
// WaitGroup and Once are channel based so that a blocked goroutine is durably
// blocked for testing/synctest and so that the scheduler decides who gets a
// contended lock. Pool is the real one. Map is the real one except that Range
// visits entries in a canonical order.
package simsync

import (
	"sync"

	"oras.land/oras-go/v2/zsim/simrt"
)

type Locker = sync.Locker

// Pool is a deterministic stand-in for sync.Pool: Get returns the item put last (or
// New()), nothing is ever dropped behind the program's back, and ResetPools empties every
// pool so that one scenario cannot see what an earlier one left behind. Each of these is
// a behaviour sync.Pool permits.
type Pool struct {
	New func() any

	mu    sync.Mutex
	items []any
	known bool
}

var (
	poolsMu sync.Mutex
	pools   []*Pool
)

func (p *Pool) register() {
	if !p.known {
		p.known = true
		poolsMu.Lock()
		pools = append(pools, p)
		poolsMu.Unlock()
	}
}

func (p *Pool) Get() any {
	p.mu.Lock()
	p.register()
	if n := len(p.items); n > 0 {
		x := p.items[n-1]
		p.items = p.items[:n-1]
		p.mu.Unlock()
		return x
	}
	p.mu.Unlock()
	if p.New != nil {
		return p.New()
	}
	return nil
}

func (p *Pool) Put(x any) {
	if x == nil {
		return
	}
	p.mu.Lock()
	p.register()
	p.items = append(p.items, x)
	p.mu.Unlock()
}

// ResetPools empties every pool that has been used so far.
func ResetPools() {
	poolsMu.Lock()
	ps := append([]*Pool(nil), pools...)
	poolsMu.Unlock()
	for _, p := range ps {
		p.mu.Lock()
		p.items = nil
		p.mu.Unlock()
	}
}

type waiter struct{ ch chan struct{} }

// Mutex is a mutual exclusion lock; the zero value is unlocked.
type Mutex struct {
	mu      sync.Mutex
	locked  bool
	waiters []*waiter
}

func (m *Mutex) Lock() {
	simrt.Yield("lock")
	m.mu.Lock()
	if !m.locked {
		m.locked = true
		m.mu.Unlock()
		return
	}
	w := &waiter{ch: make(chan struct{})}
	m.waiters = append(m.waiters, w)
	m.mu.Unlock()
	<-w.ch
	simrt.Yield("locked")
}

func (m *Mutex) TryLock() bool {
	m.mu.Lock()
	defer m.mu.Unlock()
	if m.locked {
		return false
	}
	m.locked = true
	return true
}

func (m *Mutex) Unlock() {
	m.mu.Lock()
	if !m.locked {
		m.mu.Unlock()
		panic("sync: unlock of unlocked mutex")
	}
	if n := len(m.waiters); n > 0 {
		i := simrt.Choose(n, "mutex")
		w := m.waiters[i]
		m.waiters = append(m.waiters[:i], m.waiters[i+1:]...)
		m.mu.Unlock()
		close(w.ch) // ownership handed over; stays locked
		return
	}
	m.locked = false
	m.mu.Unlock()
}

// RWMutex keeps Go's writer preference: a reader arriving while a writer waits
// blocks.
type RWMutex struct {
	mu      sync.Mutex
	writer  bool
	readers int
	wq      []*waiter
	rq      []*waiter
}

func (m *RWMutex) Lock() {
	simrt.Yield("wlock")
	m.mu.Lock()
	if !m.writer && m.readers == 0 {
		m.writer = true
		m.mu.Unlock()
		return
	}
	w := &waiter{ch: make(chan struct{})}
	m.wq = append(m.wq, w)
	m.mu.Unlock()
	<-w.ch
	simrt.Yield("wlocked")
}

func (m *RWMutex) Unlock() {
	m.mu.Lock()
	if !m.writer {
		m.mu.Unlock()
		panic("sync: Unlock of unlocked RWMutex")
	}
	m.writer = false
	if len(m.rq) > 0 {
		rq := m.rq
		m.rq = nil
		m.readers += len(rq)
		m.mu.Unlock()
		for _, w := range rq {
			close(w.ch)
		}
		return
	}
	m.handToWriterLocked()
}

// handToWriterLocked is called with m.mu held and releases it.
func (m *RWMutex) handToWriterLocked() {
	if n := len(m.wq); n > 0 && m.readers == 0 && !m.writer {
		i := simrt.Choose(n, "rwmutex")
		w := m.wq[i]
		m.wq = append(m.wq[:i], m.wq[i+1:]...)
		m.writer = true
		m.mu.Unlock()
		close(w.ch)
		return
	}
	m.mu.Unlock()
}

func (m *RWMutex) RLock() {
	simrt.Yield("rlock")
	m.mu.Lock()
	if !m.writer && len(m.wq) == 0 {
		m.readers++
		m.mu.Unlock()
		return
	}
	w := &waiter{ch: make(chan struct{})}
	m.rq = append(m.rq, w)
	m.mu.Unlock()
	<-w.ch
	simrt.Yield("rlocked")
}

func (m *RWMutex) RUnlock() {
	m.mu.Lock()
	if m.readers <= 0 {
		m.mu.Unlock()
		panic("sync: RUnlock of unlocked RWMutex")
	}
	m.readers--
	m.handToWriterLocked()
}

func (m *RWMutex) TryLock() bool {
	m.mu.Lock()
	defer m.mu.Unlock()
	if m.writer || m.readers > 0 {
		return false
	}
	m.writer = true
	return true
}

func (m *RWMutex) TryRLock() bool {
	m.mu.Lock()
	defer m.mu.Unlock()
	if m.writer || len(m.wq) > 0 {
		return false
	}
	m.readers++
	return true
}

type rlocker RWMutex

func (r *rlocker) Lock()   { (*RWMutex)(r).RLock() }
func (r *rlocker) Unlock() { (*RWMutex)(r).RUnlock() }

func (m *RWMutex) RLocker() Locker { return (*rlocker)(m) }

// WaitGroup.
type WaitGroup struct {
	mu      sync.Mutex
	n       int
	waiters []*waiter
}

func (wg *WaitGroup) Add(delta int) {
	wg.mu.Lock()
	wg.n += delta
	if wg.n < 0 {
		wg.mu.Unlock()
		panic("sync: negative WaitGroup counter")
	}
	var ws []*waiter
	if wg.n == 0 {
		ws = wg.waiters
		wg.waiters = nil
	}
	wg.mu.Unlock()
	for _, w := range ws {
		close(w.ch)
	}
}

func (wg *WaitGroup) Done() { wg.Add(-1) }

func (wg *WaitGroup) Go(f func()) {
	wg.Add(1)
	simrt.Go(func() {
		defer wg.Done()
		f()
	})
}

func (wg *WaitGroup) Wait() {
	simrt.Yield("wgwait")
	wg.mu.Lock()
	if wg.n == 0 {
		wg.mu.Unlock()
		return
	}
	w := &waiter{ch: make(chan struct{})}
	wg.waiters = append(wg.waiters, w)
	wg.mu.Unlock()
	<-w.ch
	simrt.Yield("wgwoken")
}

// Once.
type Once struct {
	m    Mutex
	done bool
}

func (o *Once) Do(f func()) {
	o.m.Lock()
	defer o.m.Unlock()
	if !o.done {
		defer func() { o.done = true }()
		f()
	}
}

// OnceFunc and friends.
func OnceFunc(f func()) func() {
	var o Once
	return func() { o.Do(f) }
}

func OnceValue[T any](f func() T) func() T {
	var o Once
	var v T
	return func() T { o.Do(func() { v = f() }); return v }
}

func OnceValues[T1, T2 any](f func() (T1, T2)) func() (T1, T2) {
	var o Once
	var v1 T1
	var v2 T2
	return func() (T1, T2) { o.Do(func() { v1, v2 = f() }); return v1, v2 }
}

// Map is sync.Map with a deterministic Range; every access is a scheduling
// point, so that check-then-act sequences over a map (Load followed by Store)
// can be interleaved by the scheduler.
type Map struct{ sync.Map }

func (m *Map) Load(key any) (any, bool) {
	simrt.Yield("map.Load")
	return m.Map.Load(key)
}

func (m *Map) Store(key, value any) {
	simrt.Yield("map.Store")
	m.Map.Store(key, value)
}

func (m *Map) LoadOrStore(key, value any) (any, bool) {
	simrt.Yield("map.LoadOrStore")
	return m.Map.LoadOrStore(key, value)
}

func (m *Map) LoadAndDelete(key any) (any, bool) {
	simrt.Yield("map.LoadAndDelete")
	return m.Map.LoadAndDelete(key)
}

func (m *Map) Delete(key any) {
	simrt.Yield("map.Delete")
	m.Map.Delete(key)
}

func (m *Map) Swap(key, value any) (any, bool) {
	simrt.Yield("map.Swap")
	return m.Map.Swap(key, value)
}

func (m *Map) CompareAndSwap(key, old, new any) bool {
	simrt.Yield("map.CompareAndSwap")
	return m.Map.CompareAndSwap(key, old, new)
}

func (m *Map) CompareAndDelete(key, old any) bool {
	simrt.Yield("map.CompareAndDelete")
	return m.Map.CompareAndDelete(key, old)
}

func (m *Map) Range(f func(key, value any) bool) {
	var keys []any
	m.Map.Range(func(k, v any) bool {
		keys = append(keys, k)
		return true
	})
	simrt.SortedAny(keys)
	for _, k := range keys {
		v, ok := m.Map.Load(k)
		if !ok {
			continue
		}
		if !f(k, v) {
			return
		}
	}
}

// Cond is not used by oras-go today; it is provided so that a modified tree
// that uses it still builds. It is built on the simulated Mutex protocol.
type Cond struct {
	L       Locker
	mu      sync.Mutex
	waiters []*waiter
}

func NewCond(l Locker) *Cond { return &Cond{L: l} }

func (c *Cond) Wait() {
	w := &waiter{ch: make(chan struct{})}
	c.mu.Lock()
	c.waiters = append(c.waiters, w)
	c.mu.Unlock()
	c.L.Unlock()
	<-w.ch
	simrt.Yield("condwoken")
	c.L.Lock()
}

func (c *Cond) Signal() {
	c.mu.Lock()
	var w *waiter
	if n := len(c.waiters); n > 0 {
		i := simrt.Choose(n, "cond")
		w = c.waiters[i]
		c.waiters = append(c.waiters[:i], c.waiters[i+1:]...)
	}
	c.mu.Unlock()
	if w != nil {
		close(w.ch)
	}
}

func (c *Cond) Broadcast() {
	c.mu.Lock()
	ws := c.waiters
	c.waiters = nil
	c.mu.Unlock()
	for _, w := range ws {
		close(w.ch)
	}
}
