// Package simos replaces "os" in instrumented code. Every call performs the
// real operation on a real directory (tmpfs), so rename atomicity, O_EXCL,
// permissions and symlink semantics are the kernel's. What it adds: a yield
// before each operation, operation counting and logging, error injection at
// the n-th operation, a "crash" (the disk freezes before the k-th mutating
// operation: from then on every operation fails and has no effect), seeded
// CreateTemp names, and decomposition of WriteFile/MkdirAll/ReadFrom into the
// system-call level steps the standard library performs.
package simos

import (
	"errors"
	"fmt"
	"io"
	"io/fs"
	"os"
	"path/filepath"
	"strings"
	"sync"
	"syscall"
	"time"

	"oras.land/oras-go/v2/zsim/simrt"
)

type (
	FileMode  = os.FileMode
	FileInfo  = os.FileInfo
	DirEntry  = os.DirEntry
	PathError = os.PathError
	LinkError = os.LinkError
)

const (
	O_RDONLY      = os.O_RDONLY
	O_WRONLY      = os.O_WRONLY
	O_RDWR        = os.O_RDWR
	O_APPEND      = os.O_APPEND
	O_CREATE      = os.O_CREATE
	O_EXCL        = os.O_EXCL
	O_SYNC        = os.O_SYNC
	O_TRUNC       = os.O_TRUNC
	ModeDir       = os.ModeDir
	ModeSymlink   = os.ModeSymlink
	ModePerm      = os.ModePerm
	ModeType      = os.ModeType
	PathSeparator = os.PathSeparator
)

var (
	ErrNotExist         = os.ErrNotExist
	ErrExist            = os.ErrExist
	ErrPermission       = os.ErrPermission
	ErrInvalid          = os.ErrInvalid
	ErrClosed           = os.ErrClosed
	ErrDeadlineExceeded = os.ErrDeadlineExceeded
	ErrNoDeadline       = os.ErrNoDeadline
	Stderr              = os.Stderr
	Stdout              = os.Stdout
	Stdin               = os.Stdin
	Args                = os.Args
)

func IsNotExist(err error) bool         { return os.IsNotExist(err) }
func IsExist(err error) bool            { return os.IsExist(err) }
func IsPermission(err error) bool       { return os.IsPermission(err) }
func Getenv(k string) string            { return os.Getenv(k) }
func LookupEnv(k string) (string, bool) { return os.LookupEnv(k) }
func Getwd() (string, error)            { return os.Getwd() }
func TempDir() string                   { return os.TempDir() }
func Getpid() int                       { return os.Getpid() }
func Exit(c int)                        { os.Exit(c) }

// UserHomeDir can be redirected by the harness.
var HomeDir string

func UserHomeDir() (string, error) {
	if HomeDir != "" {
		return HomeDir, nil
	}
	return os.UserHomeDir()
}

// ---- controller ----

// ErrFrozen is what every operation returns after the simulated crash.
var ErrFrozen = errors.New("simos: disk frozen (simulated crash)")

// ErrInjected is the injected I/O error.
var ErrInjected = syscall.EIO

type Ctl struct {
	mu         sync.Mutex
	enabled    bool
	ops        int // all operations
	mut        int // mutating operations
	crashAtMut int // freeze before this mutating op (1-based); 0 = never
	failAt     map[int]bool
	failAtMut  int // fail this mutating op (absolute count) with EIO, without effect; 0 = never
	failAtOp   int // fail this operation of any kind (absolute count) with EIO, without effect; 0 = never
	frozen     bool
	budget     int
	keepLog    bool
	log        []string
	tmpSeq     int
	fired      map[string]int
}

var ctl Ctl

// Config for one run.
type Config struct {
	CrashAtMut int          // freeze before the k-th mutating operation
	FailAt     map[int]bool // fail the n-th operation (all ops, 1-based) with EIO, no effect
	Budget     int          // abort the run (simrt.OpBudget) after this many operations; 0 = unlimited
	KeepLog    bool
}

// Reset enables the controller for a run.
func Reset(c Config) {
	ctl.mu.Lock()
	defer ctl.mu.Unlock()
	ctl.enabled = true
	ctl.ops, ctl.mut, ctl.tmpSeq = 0, 0, 0
	ctl.crashAtMut = c.CrashAtMut
	ctl.failAt = c.FailAt
	ctl.failAtMut = 0
	ctl.failAtOp = 0
	ctl.frozen = false
	ctl.budget = c.Budget
	ctl.keepLog = c.KeepLog
	ctl.log = nil
	ctl.fired = map[string]int{}
}

// Disable turns the controller off (pure pass-through).
func Disable() {
	ctl.mu.Lock()
	ctl.enabled = false
	ctl.mu.Unlock()
}

type Stats struct {
	Ops, Mut int
	Frozen   bool
	Log      []string
	Fired    map[string]int
}

func Snapshot() Stats {
	ctl.mu.Lock()
	defer ctl.mu.Unlock()
	f := map[string]int{}
	for k, v := range ctl.fired {
		f[k] = v
	}
	return Stats{Ops: ctl.ops, Mut: ctl.mut, Frozen: ctl.frozen, Log: append([]string(nil), ctl.log...), Fired: f}
}

// SetCrashAtMut re-arms the crash relative to the current counter: freeze
// before the k-th mutating operation from now (k>=1); 0 disarms.
func SetCrashAtMut(k int) {
	ctl.mu.Lock()
	if k == 0 {
		ctl.crashAtMut = 0
	} else {
		ctl.crashAtMut = ctl.mut + k
	}
	ctl.mu.Unlock()
}

// SetFailAtMut arms a one-shot I/O error: the k-th mutating operation from now (k>=1)
// fails with EIO and has no effect; 0 disarms.
func SetFailAtMut(k int) {
	ctl.mu.Lock()
	if k == 0 {
		ctl.failAtMut = 0
	} else {
		ctl.failAtMut = ctl.mut + k
	}
	ctl.mu.Unlock()
}

// SetFailAtOp arms a one-shot I/O error on the k-th operation of any kind from now (k>=1),
// reads, stats and directory listings included; 0 disarms.
func SetFailAtOp(k int) {
	ctl.mu.Lock()
	if k == 0 {
		ctl.failAtOp = 0
	} else {
		ctl.failAtOp = ctl.ops + k
	}
	ctl.mu.Unlock()
}

// SetBudget allows n more operations from now before the run is aborted.
func SetBudget(n int) {
	ctl.mu.Lock()
	ctl.budget = ctl.ops + n
	ctl.mu.Unlock()
}

// MutCount returns the number of mutating operations so far.
func MutCount() int {
	ctl.mu.Lock()
	defer ctl.mu.Unlock()
	return ctl.mut
}

// begin is called before each operation. It returns a non-nil error if the
// operation must fail without effect.
func begin(name string, mutating bool, path string) error {
	ctl.mu.Lock()
	on := ctl.enabled
	ctl.mu.Unlock()
	if !on || simrt.Observing() {
		return nil
	}
	simrt.Yield("os." + name)
	ctl.mu.Lock()
	ctl.ops++
	if ctl.budget > 0 && ctl.ops > ctl.budget {
		ctl.mu.Unlock()
		simrt.Abort(simrt.OpBudget)
	}
	if mutating {
		ctl.mut++
		if ctl.crashAtMut > 0 && ctl.mut >= ctl.crashAtMut && !ctl.frozen {
			ctl.frozen = true
			ctl.fired["crash"]++
			ctl.fired["crash-before-"+name+"-"+pathClass(path)]++
		}
	}
	if ctl.keepLog {
		ctl.log = append(ctl.log, fmt.Sprintf("%d %s %s frozen=%v", ctl.ops, name, short(path), ctl.frozen))
	}
	frozen := ctl.frozen
	fail := !frozen && ctl.failAt[ctl.ops]
	if !frozen && mutating && ctl.failAtMut > 0 && ctl.mut == ctl.failAtMut {
		fail = true
		ctl.failAtMut = 0
		ctl.fired["eio-at-"+name+"-"+pathClass(path)]++
	}
	if !frozen && ctl.failAtOp > 0 && ctl.ops == ctl.failAtOp {
		fail = true
		ctl.failAtOp = 0
		ctl.fired["eio-at-"+name+"-"+pathClass(path)]++
	}
	if fail {
		ctl.fired["eio"]++
	}
	ctl.mu.Unlock()
	simrtNote(name, path)
	if frozen {
		return &os.PathError{Op: name, Path: path, Err: ErrFrozen}
	}
	if fail {
		return &os.PathError{Op: name, Path: path, Err: ErrInjected}
	}
	return nil
}

func simrtNote(name, path string) { simrt.Note("os %s %s", name, short(path)) }

// pathClass names what kind of file an operation touches (for reach probes).
func pathClass(p string) string {
	switch {
	case strings.HasSuffix(p, "index.json.tmp"):
		return "index-tmp"
	case strings.HasSuffix(p, "index.json"):
		return "index"
	case strings.Contains(p, "/ingest"):
		return "ingest"
	case strings.Contains(p, "/blobs/"):
		return "blob"
	case strings.Contains(p, "oras_credstore_temp"):
		return "cred-temp"
	case strings.HasSuffix(p, "config.json"):
		return "cred-config"
	}
	return "other"
}

func short(p string) string {
	if i := strings.Index(p, "/vroot/"); i >= 0 {
		return p[i+6:]
	}
	return p
}

// ---- file ----

type File struct {
	f    *os.File
	path string
	wr   bool
}

func (f *File) Name() string { return f.f.Name() }
func (f *File) Fd() uintptr  { return f.f.Fd() }

func (f *File) Read(p []byte) (int, error) {
	if err := begin("read", false, f.path); err != nil {
		return 0, err
	}
	return f.f.Read(p)
}

func (f *File) ReadAt(p []byte, off int64) (int, error) {
	if err := begin("pread", false, f.path); err != nil {
		return 0, err
	}
	return f.f.ReadAt(p, off)
}

func (f *File) Seek(off int64, whence int) (int64, error) { return f.f.Seek(off, whence) }

func (f *File) Write(p []byte) (int, error) {
	if err := begin("write", true, f.path); err != nil {
		return 0, err
	}
	return f.f.Write(p)
}

func (f *File) WriteString(s string) (int, error) { return f.Write([]byte(s)) }

// ReadFrom copies like os.File does for a non-file source: 32 KiB chunks, one
// write each.
func (f *File) ReadFrom(r io.Reader) (int64, error) {
	buf := make([]byte, 32*1024)
	var n int64
	for {
		nr, er := r.Read(buf)
		if nr > 0 {
			nw, ew := f.Write(buf[:nr])
			n += int64(nw)
			if ew != nil {
				return n, ew
			}
			if nw != nr {
				return n, io.ErrShortWrite
			}
		}
		if er != nil {
			if er == io.EOF {
				return n, nil
			}
			return n, er
		}
	}
}

func (f *File) Close() error {
	if err := begin("close", false, f.path); err != nil {
		f.f.Close()
		return err
	}
	return f.f.Close()
}

func (f *File) Chmod(m FileMode) error {
	if err := begin("fchmod", true, f.path); err != nil {
		return err
	}
	return f.f.Chmod(m)
}

func (f *File) Sync() error {
	if err := begin("fsync", false, f.path); err != nil {
		return err
	}
	return f.f.Sync()
}

func (f *File) Stat() (FileInfo, error) {
	if err := begin("fstat", false, f.path); err != nil {
		return nil, err
	}
	return f.f.Stat()
}

func (f *File) Truncate(n int64) error {
	if err := begin("ftruncate", true, f.path); err != nil {
		return err
	}
	return f.f.Truncate(n)
}

func (f *File) ReadDir(n int) ([]DirEntry, error) {
	if err := begin("getdents", false, f.path); err != nil {
		return nil, err
	}
	return f.f.ReadDir(n)
}

func (f *File) Readdir(n int) ([]FileInfo, error) {
	if err := begin("getdents", false, f.path); err != nil {
		return nil, err
	}
	return f.f.Readdir(n)
}

func (f *File) Readdirnames(n int) ([]string, error) {
	if err := begin("getdents", false, f.path); err != nil {
		return nil, err
	}
	return f.f.Readdirnames(n)
}

// ---- functions ----

func Open(name string) (*File, error) { return OpenFile(name, O_RDONLY, 0) }

func Create(name string) (*File, error) {
	return OpenFile(name, O_RDWR|O_CREATE|O_TRUNC, 0666)
}

func OpenFile(name string, flag int, perm FileMode) (*File, error) {
	mut := flag&(O_CREATE|O_TRUNC) != 0
	if err := begin("open", mut, name); err != nil {
		return nil, err
	}
	f, err := os.OpenFile(name, flag, perm)
	if err != nil {
		return nil, err
	}
	return &File{f: f, path: name, wr: flag&(O_WRONLY|O_RDWR) != 0}, nil
}

func CreateTemp(dir, pattern string) (*File, error) {
	ctl.mu.Lock()
	on := ctl.enabled
	ctl.mu.Unlock()
	if !on || simrt.Observing() {
		f, err := os.CreateTemp(dir, pattern)
		if err != nil {
			return nil, err
		}
		return &File{f: f, path: f.Name(), wr: true}, nil
	}
	if dir == "" {
		dir = os.TempDir()
	}
	prefix, suffix := pattern, ""
	if i := strings.LastIndex(pattern, "*"); i >= 0 {
		prefix, suffix = pattern[:i], pattern[i+1:]
	}
	for try := 0; try < 10000; try++ {
		ctl.mu.Lock()
		ctl.tmpSeq++
		seq := ctl.tmpSeq
		ctl.mu.Unlock()
		name := filepath.Join(dir, fmt.Sprintf("%s%09d%s", prefix, seq, suffix))
		if err := begin("open", true, name); err != nil {
			return nil, err
		}
		f, err := os.OpenFile(name, O_RDWR|O_CREATE|O_EXCL, 0600)
		if os.IsExist(err) {
			continue
		}
		if err != nil {
			return nil, err
		}
		return &File{f: f, path: name, wr: true}, nil
	}
	return nil, &os.PathError{Op: "createtemp", Path: dir, Err: os.ErrExist}
}

func Stat(name string) (FileInfo, error) {
	if err := begin("stat", false, name); err != nil {
		return nil, err
	}
	return os.Stat(name)
}

func Lstat(name string) (FileInfo, error) {
	if err := begin("lstat", false, name); err != nil {
		return nil, err
	}
	return os.Lstat(name)
}

func Remove(name string) error {
	if err := begin("unlink", true, name); err != nil {
		return err
	}
	return os.Remove(name)
}

func RemoveAll(name string) error {
	if err := begin("rmtree", true, name); err != nil {
		return err
	}
	return os.RemoveAll(name)
}

func Rename(oldpath, newpath string) error {
	if err := begin("rename", true, newpath); err != nil {
		return &os.LinkError{Op: "rename", Old: oldpath, New: newpath, Err: errors.Unwrap(err)}
	}
	return os.Rename(oldpath, newpath)
}

func Chmod(name string, m FileMode) error {
	if err := begin("chmod", true, name); err != nil {
		return err
	}
	return os.Chmod(name, m)
}

func Chtimes(name string, a, m time.Time) error {
	if err := begin("utimes", true, name); err != nil {
		return err
	}
	return os.Chtimes(name, a, m)
}

func Symlink(oldname, newname string) error {
	if err := begin("symlink", true, newname); err != nil {
		return err
	}
	return os.Symlink(oldname, newname)
}

func Link(oldname, newname string) error {
	if err := begin("link", true, newname); err != nil {
		return err
	}
	return os.Link(oldname, newname)
}

func Readlink(name string) (string, error) {
	if err := begin("readlink", false, name); err != nil {
		return "", err
	}
	return os.Readlink(name)
}

func Mkdir(name string, perm FileMode) error {
	if err := begin("mkdir", true, name); err != nil {
		return err
	}
	return os.Mkdir(name, perm)
}

// MkdirAll: stat, then one mkdir per missing component, as os.MkdirAll does.
func MkdirAll(path string, perm FileMode) error {
	fi, err := Stat(path)
	if err == nil {
		if fi.IsDir() {
			return nil
		}
		return &os.PathError{Op: "mkdir", Path: path, Err: syscall.ENOTDIR}
	}
	if errors.Is(err, ErrFrozen) || errors.Is(err, ErrInjected) {
		return err
	}
	parent := filepath.Dir(filepath.Clean(path))
	if parent != path && parent != "." && parent != "/" {
		if err := MkdirAll(parent, perm); err != nil {
			return err
		}
	}
	err = Mkdir(path, perm)
	if err != nil {
		if errors.Is(err, ErrFrozen) || errors.Is(err, ErrInjected) {
			return err
		}
		fi, err1 := os.Lstat(path)
		if err1 == nil && fi.IsDir() {
			return nil
		}
		return err
	}
	return nil
}

func Truncate(name string, size int64) error {
	if err := begin("truncate", true, name); err != nil {
		return err
	}
	return os.Truncate(name, size)
}

func Chown(name string, uid, gid int) error {
	if err := begin("chown", true, name); err != nil {
		return err
	}
	return os.Chown(name, uid, gid)
}

func MkdirTemp(dir, pattern string) (string, error) {
	if err := begin("mkdir", true, dir); err != nil {
		return "", err
	}
	return os.MkdirTemp(dir, pattern)
}

func ReadDir(name string) ([]DirEntry, error) {
	if err := begin("readdir", false, name); err != nil {
		return nil, err
	}
	return os.ReadDir(name)
}

func ReadFile(name string) ([]byte, error) {
	f, err := Open(name)
	if err != nil {
		return nil, err
	}
	defer f.Close()
	return io.ReadAll(f)
}

// WriteFile: open(O_WRONLY|O_CREATE|O_TRUNC), write, close — as os.WriteFile.
func WriteFile(name string, data []byte, perm FileMode) error {
	f, err := OpenFile(name, O_WRONLY|O_CREATE|O_TRUNC, perm)
	if err != nil {
		return err
	}
	_, err = f.Write(data)
	if err1 := f.Close(); err1 != nil && err == nil {
		err = err1
	}
	return err
}

// ---- DirFS ----

type dirFS struct {
	root string
	fsys fs.FS
}

func DirFS(root string) fs.FS { return &dirFS{root: root, fsys: os.DirFS(root)} }

func (d *dirFS) Open(name string) (fs.File, error) {
	if err := begin("open", false, filepath.Join(d.root, name)); err != nil {
		return nil, err
	}
	return d.fsys.Open(name)
}

func (d *dirFS) Stat(name string) (fs.FileInfo, error) {
	if err := begin("stat", false, filepath.Join(d.root, name)); err != nil {
		return nil, err
	}
	return fs.Stat(d.fsys, name)
}

func (d *dirFS) ReadFile(name string) ([]byte, error) {
	if err := begin("open", false, filepath.Join(d.root, name)); err != nil {
		return nil, err
	}
	return fs.ReadFile(d.fsys, name)
}

func (d *dirFS) ReadDir(name string) ([]fs.DirEntry, error) {
	if err := begin("readdir", false, filepath.Join(d.root, name)); err != nil {
		return nil, err
	}
	return fs.ReadDir(d.fsys, name)
}
