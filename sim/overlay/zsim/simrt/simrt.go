// Package simrt is the run-time half of the deterministic simulator: task
// identity, cooperative yield points, the decision tape and the scheduler loop.
//
// It is copied into a scratch copy of oras-go (module path
// oras.land/oras-go/v2/zsim/simrt) and is called from source that the
// instrumenter rewrote. With no active scheduler every entry point is a
// pass-through, so instrumented packages behave like the originals during
// set-up and inside oracles.
package simrt

import (
	"fmt"
	"hash/fnv"
	"runtime"
	"runtime/debug"
	"sort"
	"strings"
	"sync"
	"sync/atomic"
	"testing/synctest"
	"time"
)

// Outcome of one simulated run.
type Outcome string

const (
	OK        Outcome = "ok"
	Stall     Outcome = "stall"     // nothing runnable for Guard simulated time (deadlock / lost wake-up)
	StepLimit Outcome = "steplimit" // MaxSteps scheduling steps used up (livelock)
	OpBudget  Outcome = "opbudget"  // a seam declared its operation budget exhausted (spin)
	Panicked  Outcome = "panic"     // code under test panicked
)

// Policy selects how schedule picks are drawn when no replay list is given.
type Policy int

const (
	PolRandom Policy = iota // uniform among parked tasks
	PolPCT                  // random priorities with a few priority change points
	PolSeq                  // always the lowest task id
	PolLast                 // always the highest task id (depth first into new tasks)
)

// Config of one run.
type Config struct {
	Seed     uint64
	Policy   Policy
	PCTDepth int           // number of priority change points (PolPCT)
	Replay   []uint64      // if non-nil: decisions are taken from here (missing ones are 0)
	MaxSteps int           // default 200000
	Guard    time.Duration // simulated; default 1h
	KeepLog  bool          // keep the full step log (otherwise only its hash)
	// MemYields turns the instrumenter's YieldMem sites (after statements that append to a
	// slice) into scheduling points
	MemYields bool
}

// Result of one run.
type Result struct {
	Outcome    Outcome
	Detail     string
	Steps      int
	Tasks      int      // tasks created (including main)
	MaxParked  int      // maximum number of tasks simultaneously parked (>=2: real choice existed)
	Choices    int      // scheduling steps that had >= 2 candidates
	Decisions  []uint64 // every decision drawn, in order (the schedule part of a replay file)
	TraceHash  uint64
	Log        []string
	Unknown    int           // yields from goroutines that are not tasks (must be 0)
	Leaked     int           // tasks still blocked when the run ended
	SimElapsed time.Duration // simulated time covered
	PanicValue string
	PanicStack string
}

type Task struct {
	ID      int
	wake    chan struct{}
	site    string
	observe int32
	prio    int
	done    bool
}

type abortPanic struct{ why Outcome }

// Sched is the scheduler of one run.
type Sched struct {
	cfg       Config
	mu        sync.Mutex
	parked    []*Task
	byGoid    map[uint64]*Task
	nextID    int
	notify    chan struct{}
	schedGoid uint64
	free      bool // abort mode: yields pass through
	rng       splitmix
	decisions []uint64
	pos       int
	hash      uint64
	log       []string
	steps     int
	choices   int
	maxParked int
	unknown   int
	live      int
	pctChange map[int]bool
	outcome   Outcome
	detail    string
	panicVal  string
	panicStk  string
	opBudget  int32 // set to 1 by seams when their budget is exhausted
}

var active atomic.Pointer[Sched]

// Active reports whether a scheduler is running.
func Active() bool { return active.Load() != nil }

func goid() uint64 {
	var buf [40]byte
	n := runtime.Stack(buf[:], false)
	// "goroutine 123 ["
	var id uint64
	for i := 10; i < n; i++ {
		c := buf[i]
		if c < '0' || c > '9' {
			break
		}
		id = id*10 + uint64(c-'0')
	}
	return id
}

type splitmix struct{ s uint64 }

func (r *splitmix) next() uint64 {
	r.s += 0x9e3779b97f4a7c15
	z := r.s
	z = (z ^ (z >> 30)) * 0xbf58476d1ce4e5b9
	z = (z ^ (z >> 27)) * 0x94d049bb133111eb
	return z ^ (z >> 31)
}

// Mix derives a sub-seed.
func Mix(a, b uint64) uint64 {
	r := splitmix{s: a ^ (b * 0x9e3779b97f4a7c15)}
	r.next()
	return r.next()
}

func (s *Sched) current() *Task {
	g := goid()
	s.mu.Lock()
	t := s.byGoid[g]
	s.mu.Unlock()
	return t
}

// draw returns a decision in [0,n). kind is for the log only.
func (s *Sched) draw(n int, kind string) int {
	if n <= 1 {
		return 0
	}
	s.mu.Lock()
	defer s.mu.Unlock()
	return s.drawLocked(n, kind)
}

func (s *Sched) drawLocked(n int, kind string) int {
	var v uint64
	if s.cfg.Replay != nil {
		if s.pos < len(s.cfg.Replay) {
			v = s.cfg.Replay[s.pos] % uint64(n)
		}
	} else {
		v = s.rng.next() % uint64(n)
	}
	s.pos++
	s.decisions = append(s.decisions, v)
	return int(v)
}

func (s *Sched) record(format string, a ...any) {
	line := fmt.Sprintf(format, a...)
	h := fnv.New64a()
	var b [8]byte
	for i := 0; i < 8; i++ {
		b[i] = byte(s.hash >> (8 * i))
	}
	h.Write(b[:])
	h.Write([]byte(line))
	s.hash = h.Sum64()
	if s.cfg.KeepLog {
		s.log = append(s.log, line)
	}
}

// Note adds a line to the event log / trace hash (used by seams so that the
// determinism self-test covers what the code under test observed).
func Note(format string, a ...any) {
	s := active.Load()
	if s == nil {
		return
	}
	s.mu.Lock()
	s.record(format, a...)
	s.mu.Unlock()
}

// Choose draws a decision in [0,n) from the tape (pass-through: 0).
func Choose(n int, kind string) int {
	s := active.Load()
	if s == nil {
		return 0
	}
	return s.draw(n, kind)
}

// Rand64 draws 64 bits from the tape (used by simhash).
func Rand64() uint64 {
	s := active.Load()
	if s == nil {
		return uint64(time.Now().UnixNano())
	}
	return uint64(s.draw(1<<30, "rand"))<<30 ^ uint64(s.draw(1<<30, "rand"))
}

// Yield is a cooperative scheduling point.
// YieldMem is a scheduling point only in runs configured with MemYields.
func YieldMem(site string) {
	if s := active.Load(); s != nil && s.cfg.MemYields {
		Yield(site)
	}
}

func Yield(site string) {
	s := active.Load()
	if s == nil {
		return
	}
	t := s.current()
	if t == nil {
		if goid() != s.schedGoid {
			s.mu.Lock()
			dead := s.free
			if !dead {
				s.unknown++
			}
			s.mu.Unlock()
			if dead {
				select {} // the run was aborted: nothing runs any more
			}
		}
		return
	}
	if atomic.LoadInt32(&t.observe) > 0 {
		return
	}
	s.park(t, site)
}

func (s *Sched) park(t *Task, site string) {
	s.mu.Lock()
	if s.free {
		// the run was aborted (stall, step limit, budget, panic): whoever reaches a
		// yield point stops here for good, so that an endless loop ends too
		s.mu.Unlock()
		select {}
	}
	t.site = site
	s.parked = append(s.parked, t)
	s.mu.Unlock()
	select {
	case s.notify <- struct{}{}:
	default:
	}
	<-t.wake
}

// Observe runs f with yields, operation counting and fault injection disabled
// for the calling goroutine. Oracles use it so that looking never perturbs the
// schedule.
func Observe(f func()) {
	s := active.Load()
	if s == nil {
		f()
		return
	}
	t := s.current()
	if t == nil {
		f()
		return
	}
	atomic.AddInt32(&t.observe, 1)
	defer atomic.AddInt32(&t.observe, -1)
	f()
}

// Observing reports whether the calling goroutine is inside Observe, or no
// scheduler is active, or the caller is the scheduler itself.
func Observing() bool {
	s := active.Load()
	if s == nil {
		return true
	}
	t := s.current()
	if t == nil {
		return true
	}
	return atomic.LoadInt32(&t.observe) > 0
}

// TaskID returns the calling task's id, or -1.
func TaskID() int {
	s := active.Load()
	if s == nil {
		return -1
	}
	t := s.current()
	if t == nil {
		return -1
	}
	return t.ID
}

// Steps returns the number of scheduling steps so far: the simulator's global
// event sequence number.
func Steps() int {
	s := active.Load()
	if s == nil {
		return 0
	}
	s.mu.Lock()
	defer s.mu.Unlock()
	return s.steps
}

// Go starts f as a new task.
func Go(f func()) {
	s := active.Load()
	if s == nil {
		go f()
		return
	}
	s.mu.Lock()
	if s.free {
		// aborted run: no new tasks
		s.mu.Unlock()
		return
	}
	t := &Task{ID: s.nextID, wake: make(chan struct{})}
	s.nextID++
	s.live++
	s.mu.Unlock()
	go s.runTask(t, f)
}

func (s *Sched) runTask(t *Task, f func()) {
	g := goid()
	s.mu.Lock()
	s.byGoid[g] = t
	s.mu.Unlock()
	defer func() {
		if r := recover(); r != nil {
			if ap, ok := r.(abortPanic); ok {
				s.abort(ap.why, "")
			} else {
				s.mu.Lock()
				if s.panicVal == "" {
					s.panicVal = fmt.Sprint(r)
					s.panicStk = string(debug.Stack())
				}
				s.mu.Unlock()
				s.abort(Panicked, fmt.Sprint(r))
			}
		}
		s.mu.Lock()
		delete(s.byGoid, g)
		t.done = true
		s.live--
		s.mu.Unlock()
		select {
		case s.notify <- struct{}{}:
		default:
		}
	}()
	s.park(t, "start")
	f()
}

// Abort stops the run from inside a task (used by seams whose operation budget
// is exhausted). It does not return.
func Abort(why Outcome) {
	panic(abortPanic{why})
}

// aborts counts aborted runs of this process (see Aborts).
var aborts atomic.Int64

// Aborts returns how many runs have been aborted so far (stall, step limit, operation
// budget, panic). The tasks of an aborted run are frozen at their next scheduling point
// for good; anything that could wake them later must check this first.
func Aborts() int64 { return aborts.Load() }

func (s *Sched) abort(why Outcome, detail string) {
	aborts.Add(1)
	s.mu.Lock()
	if s.outcome == "" {
		s.outcome = why
		s.detail = detail
	}
	s.free = true
	s.parked = nil // parked tasks stay parked for ever
	s.mu.Unlock()
}

// Run executes main as task 0 under the scheduler. It must be called inside a
// synctest bubble. It returns when main has returned and no task is parked, or
// when the run was aborted.
func Run(cfg Config, main func()) Result {
	if cfg.MaxSteps == 0 {
		cfg.MaxSteps = 200000
	}
	if cfg.Guard == 0 {
		cfg.Guard = time.Hour
	}
	s := &Sched{cfg: cfg, byGoid: map[uint64]*Task{}, notify: make(chan struct{}, 1), schedGoid: goid()}
	s.rng.s = cfg.Seed
	if cfg.Policy == PolPCT && cfg.Replay == nil {
		s.pctChange = map[int]bool{}
		r := splitmix{s: Mix(cfg.Seed, 77)}
		for i := 0; i < cfg.PCTDepth; i++ {
			s.pctChange[int(r.next()%400)] = true
		}
	}
	start := time.Now()
	active.Store(s)
	defer active.Store(nil)

	mainDone := make(chan struct{})
	Go(func() {
		defer close(mainDone)
		main()
	})

	finished := false
	for {
		synctest.Wait()
		s.mu.Lock()
		if s.outcome != "" {
			s.mu.Unlock()
			break
		}
		select {
		case <-mainDone:
			finished = true
		default:
		}
		n := len(s.parked)
		if n == 0 {
			s.mu.Unlock()
			if finished {
				break
			}
			// only timers (or nothing) can make progress now
			g := time.NewTimer(cfg.Guard)
			select {
			case <-s.notify:
				g.Stop()
				continue
			case <-mainDone:
				g.Stop()
				continue
			case <-g.C:
				s.abort(Stall, "no task runnable for "+cfg.Guard.String()+" of simulated time")
			}
			continue
		}
		if n > s.maxParked {
			s.maxParked = n
		}
		sort.Slice(s.parked, func(i, j int) bool { return s.parked[i].ID < s.parked[j].ID })
		i := 0
		if n > 1 {
			s.choices++
			i = s.pickLocked(n)
		}
		t := s.parked[i]
		s.parked = append(s.parked[:i], s.parked[i+1:]...)
		s.steps++
		s.record("%d t%d %s", s.steps, t.ID, t.site)
		over := s.steps > cfg.MaxSteps
		s.mu.Unlock()
		if over {
			s.abort(StepLimit, fmt.Sprintf("more than %d scheduling steps", cfg.MaxSteps))
			continue
		}
		t.wake <- struct{}{}
	}
	// drain: in abort mode tasks run free; give them a chance to finish
	synctest.Wait()
	s.mu.Lock()
	defer s.mu.Unlock()
	res := Result{
		Outcome: s.outcome, Detail: s.detail, Steps: s.steps, Tasks: s.nextID, MaxParked: s.maxParked,
		Choices: s.choices, Decisions: s.decisions, TraceHash: s.hash, Log: s.log, Unknown: s.unknown,
		Leaked: s.live, SimElapsed: time.Since(start), PanicValue: s.panicVal, PanicStack: s.panicStk,
	}
	if res.Outcome == "" {
		res.Outcome = OK
	}
	return res
}

func (s *Sched) pickLocked(n int) int {
	if s.cfg.Replay != nil {
		return s.drawLocked(n, "sched")
	}
	switch s.cfg.Policy {
	case PolSeq:
		s.decisions = append(s.decisions, 0)
		s.pos++
		return 0
	case PolLast:
		s.decisions = append(s.decisions, uint64(n-1))
		s.pos++
		return n - 1
	case PolPCT:
		// each task gets a random priority when first seen; highest runs; at
		// change points the running choice is demoted.
		best := 0
		for i, t := range s.parked {
			if t.prio == 0 {
				t.prio = int(s.rng.next()%1000000) + 1000
			}
			if t.prio > s.parked[best].prio {
				best = i
			}
		}
		if s.pctChange[s.steps] {
			s.parked[best].prio = int(s.rng.next()%999) + 1
			best = 0
			for i, t := range s.parked {
				if t.prio > s.parked[best].prio {
					best = i
				}
			}
		}
		s.decisions = append(s.decisions, uint64(best))
		s.pos++
		return best
	default:
		return s.drawLocked(n, "sched")
	}
}

// ---- helpers called from rewritten source ----

// Recv is "<-ch" followed by a yield.
func Recv[T any](ch <-chan T) T {
	v := <-ch
	Yield("recv")
	return v
}

// Recv2 is "v, ok := <-ch" followed by a yield.
func Recv2[T any](ch <-chan T) (T, bool) {
	v, ok := <-ch
	Yield("recv")
	return v, ok
}

// Send is "ch <- v" followed by a yield.
func Send[T any](ch chan<- T, v T) {
	ch <- v
	Yield("send")
}

// SelectPerm returns the order in which the n cases of a select are polled.
func SelectPerm(n int) []int {
	p := make([]int, n)
	for i := range p {
		p[i] = i
	}
	s := active.Load()
	if s == nil {
		return p
	}
	for i := n - 1; i > 0; i-- {
		j := s.draw(i+1, "select")
		p[i], p[j] = p[j], p[i]
	}
	return p
}

// MapIterator iterates over a snapshot of a map's keys in a canonical order,
// skipping keys deleted meanwhile.
type MapIterator[K comparable, V any] struct {
	m    map[K]V
	keys []K
	i    int
	K    K
	V    V
}

// ShuffleMaps makes MapIter shuffle the canonical order with tape decisions.
var ShuffleMaps atomic.Bool

func MapIter[M ~map[K]V, K comparable, V any](m M) *MapIterator[K, V] {
	keys := make([]K, 0, len(m))
	for k := range m {
		keys = append(keys, k)
	}
	if len(keys) > 1 {
		strs := make([]string, len(keys))
		idx := make([]int, len(keys))
		for i, k := range keys {
			strs[i] = fmt.Sprintf("%v", any(k))
			idx[i] = i
		}
		sort.SliceStable(idx, func(a, b int) bool { return strings.Compare(strs[idx[a]], strs[idx[b]]) < 0 })
		sorted := make([]K, len(keys))
		for i, j := range idx {
			sorted[i] = keys[j]
		}
		keys = sorted
		if ShuffleMaps.Load() {
			if s := active.Load(); s != nil && !Observing() {
				for i := len(keys) - 1; i > 0; i-- {
					j := s.draw(i+1, "map")
					keys[i], keys[j] = keys[j], keys[i]
				}
			}
		}
	}
	return &MapIterator[K, V]{m: m, keys: keys}
}

func (it *MapIterator[K, V]) Next() bool {
	for it.i < len(it.keys) {
		k := it.keys[it.i]
		it.i++
		if v, ok := it.m[k]; ok {
			it.K, it.V = k, v
			return true
		}
	}
	return false
}

// SortedAny sorts arbitrary keys canonically (used by simsync.Map.Range).
func SortedAny(keys []any) {
	strs := make(map[any]string, len(keys))
	for _, k := range keys {
		strs[k] = fmt.Sprintf("%v", k)
	}
	sort.SliceStable(keys, func(a, b int) bool { return strs[keys[a]] < strs[keys[b]] })
}
