package harness

import (
	"bytes"
	"context"
	"encoding/json"
	"errors"
	"fmt"
	"net/http"
	"sort"
	"strings"
	"sync"

	"github.com/opencontainers/go-digest"
	ocispec "github.com/opencontainers/image-spec/specs-go/v1"
	"oras.land/oras-go/v2/registry/remote"
	"oras.land/oras-go/v2/zsim/simrt"
)

// RefOp: push or delete of one referrer manifest.
type RefOp struct {
	Op   string `json:"op"`  // push | delete
	Ref  int    `json:"ref"` // referrer index
	Task int    `json:"task"`
}

type RefSpec struct {
	Subject int               `json:"subject"`
	Kind    string            `json:"kind"` // manifest | artifact | index
	AType   string            `json:"atype,omitempty"`
	Ann     map[string]string `json:"ann,omitempty"`
	Pre     bool              `json:"pre,omitempty"` // stored (and indexed) before the run
	// SubjVar: how this manifest spells its subject descriptor: 0 = exactly, 1 = under the
	// Docker media type, 2 = without size. The digest is what names the subject.
	SubjVar int `json:"subj_var,omitempty"`
	// PreUnindexed (with Pre): the manifest is in the registry before the run but no
	// referrers index lists it - stored by a client that does not maintain the tag schema
	PreUnindexed bool `json:"pre_unindexed,omitempty"`
	// DescVar: what the descriptor handed to Push carries besides media type, digest and size:
	// 0 = nothing, 1 = annotations of its own (as an entry of an image layout's index has),
	// 2 = an artifact type of its own. What is listed comes from the manifest all the same.
	DescVar int `json:"desc_var,omitempty"`
}

// pushDesc: the descriptor a caller hands to Push (see RefSpec.DescVar).
func pushDesc(d ocispec.Descriptor, v int) ocispec.Descriptor {
	switch v {
	case 1:
		d.Annotations = map[string]string{"org.opencontainers.image.ref.name": "from-a-layout", "k": "of-the-descriptor"}
	case 2:
		d.ArtifactType = "application/vnd.example.of-the-descriptor"
	}
	return d
}

type ReferrersParams struct {
	Subjects int        `json:"subjects"`
	Refs     []RefSpec  `json:"refs"`
	Ops      []RefOp    `json:"ops"`
	Tasks    int        `json:"tasks"`
	SkipGC   bool       `json:"skip_gc,omitempty"`
	DirtyPre bool       `json:"dirty_pre,omitempty"` // pre-existing indexes contain duplicates and empty descriptors
	Faults   []NetFault `json:"faults,omitempty"`
	// FlipProbe: sequential run against a registry that gives contradictory capability
	// signals (404 on the Referrers API, OCI-Subject on manifest PUT); FirstOp decides
	// which signal the repository sees first.
	FlipProbe bool   `json:"flip_probe,omitempty"`
	FirstOp   string `json:"first_op,omitempty"` // list | push
}

type referrersProp struct{}

func init() { register(&referrersProp{}) }

func (p *referrersProp) ID() string { return "C14" }

func (p *referrersProp) Rule() string {
	return "scenario = 1-3 subjects, up to 10 referrer manifests (image manifests, artifact manifests, indexes; some stored and indexed beforehand, optionally with duplicate and empty index entries), a multiset of push/delete operations split over 2-6 tasks that share one Repository against a registry without the Referrers API, SkipReferrersGC on/off, optionally failures (HTTP 500, connection reset before or after the request took effect, a GET answer that breaks off half way) on index GET/PUT/DELETE exchanges; every HTTP exchange and every hand-off of the merge protocol is a scheduling point; non-trivial = at least two operations on the same subject overlapped in time, or a fault fired; distinct = distinct (event-trace hash, final index state)"
}

func (p *referrersProp) Components() map[string][]string {
	return map[string][]string{
		"real":        {"remote.Repository manifest push/delete with referrers indexing", "registry/remote/referrers.go", "internal/syncutil.Merge and Pool", "net/http.Client"},
		"substituted": {"sync.Mutex (scheduler-controlled)", "channel operations and select (yield after wake-up, tape-ordered polling)"},
		"stub":        {"simulated registry without Referrers API (model of what an API-capable registry would list), failure injector on index exchanges"},
	}
}

func (p *referrersProp) Assumptions() []string {
	return []string{
		"each referrer manifest is operated on by one task only, so its final liveness is determined; different tasks contend on the same subjects' indexes",
		"with injected failures only operations that returned nil (or a referrers-index-delete error) must be reflected",
		"the detected capability is observed through the endpoints later calls use (no accessor into the Repository)",
	}
}

func (p *referrersProp) Gen(r *Rand, tier string, idx int) any {
	rp := &ReferrersParams{}
	rp.Subjects = r.Range(1, 3)
	if r.Chance(0.5) {
		rp.Subjects = 1
	}
	nref := r.Range(2, 10)
	rp.Tasks = r.Range(2, 6)
	for i := 0; i < nref; i++ {
		rs := RefSpec{Subject: r.Intn(rp.Subjects), Kind: pick(r, []string{"manifest", "manifest", "artifact", "index"}),
			AType: pick(r, []string{"application/vnd.example.sbom", "application/vnd.example.sig", ""}), Pre: r.Chance(0.25)}
		if r.Chance(0.5) {
			rs.Ann = map[string]string{"k": fmt.Sprint("v", i)}
		}
		if r.Chance(0.25) {
			rs.SubjVar = r.Range(1, 2)
		}
		if r.Chance(0.2) {
			rs.DescVar = r.Range(1, 2)
		}
		if rs.Pre && r.Chance(0.25) {
			rs.PreUnindexed = true
		}
		rp.Refs = append(rp.Refs, rs)
	}
	rp.DirtyPre = r.Chance(0.4)
	rp.SkipGC = r.Chance(0.3)
	if r.Chance(0.15) {
		rp.FlipProbe = true
		rp.FirstOp = pick(r, []string{"list", "push"})
		rp.Tasks = 1
		rp.DirtyPre = false
		for i := range rp.Refs {
			rp.Refs[i].Pre = false
		}
	}
	// each referrer belongs to one task; its op sequence alternates sensibly
	for i, rs := range rp.Refs {
		task := r.Intn(rp.Tasks)
		live := rs.Pre
		k := r.Range(1, 3)
		if r.Chance(0.15) {
			k = 0
		}
		for j := 0; j < k; j++ {
			op := "push"
			if live {
				op = "delete"
			}
			if r.Chance(0.1) {
				op = pick(r, []string{"push", "delete"}) // redundant operation
			}
			rp.Ops = append(rp.Ops, RefOp{Op: op, Ref: i, Task: task})
			if op == "push" {
				live = true
			} else {
				live = false
			}
		}
	}
	// shuffle ops across the list (order within a task is the list order)
	for i := len(rp.Ops) - 1; i > 0; i-- {
		j := r.Intn(i + 1)
		if rp.Ops[i].Ref != rp.Ops[j].Ref {
			rp.Ops[i], rp.Ops[j] = rp.Ops[j], rp.Ops[i]
		}
	}
	// keep per-referrer order stable: re-sort by original sequence within each referrer
	fixOrder(rp)
	if rp.FlipProbe {
		for i := range rp.Ops {
			rp.Ops[i].Task = 0
		}
	}
	if r.Chance(0.35) && !rp.FlipProbe {
		nf := r.Range(1, 2)
		for i := 0; i < nf; i++ {
			f := NetFault{Class: "manifest", Method: pick(r, []string{"GET", "PUT", "DELETE", "PUT"}), Occur: r.Range(1, 8), Kind: pick(r, []string{"status-500", "transport", "drop-after-apply"})}
			if f.Method == "GET" && r.Chance(0.4) {
				f.Kind = "truncate-body" // the answer begins as announced and breaks off half way
			}
			rp.Faults = append(rp.Faults, f)
		}
	}
	return rp
}

// fixOrder makes the op list consistent: for each referrer, a delete never
// precedes the push it is meant to follow in that referrer's own sequence.
func fixOrder(rp *ReferrersParams) {
	byRef := map[int][]int{}
	for i, o := range rp.Ops {
		byRef[o.Ref] = append(byRef[o.Ref], i)
	}
	for ref, idxs := range byRef {
		live := rp.Refs[ref].Pre
		for _, i := range idxs {
			// rewrite the op so that the sequence alternates from the initial state
			if live {
				rp.Ops[i].Op = "delete"
			} else {
				rp.Ops[i].Op = "push"
			}
			live = !live
		}
	}
}

func (p *referrersProp) Shrink(raw json.RawMessage) []json.RawMessage {
	var rp ReferrersParams
	if json.Unmarshal(raw, &rp) != nil {
		return nil
	}
	var out []json.RawMessage
	emit := func(c ReferrersParams) {
		fixOrder(&c)
		b, _ := json.Marshal(c)
		out = append(out, b)
	}
	for i := len(rp.Ops) - 1; i >= 0; i-- {
		c := rp
		c.Ops = append(append([]RefOp{}, rp.Ops[:i]...), rp.Ops[i+1:]...)
		emit(c)
	}
	for i := range rp.Faults {
		c := rp
		c.Faults = append(append([]NetFault{}, rp.Faults[:i]...), rp.Faults[i+1:]...)
		emit(c)
	}
	if rp.DirtyPre {
		c := rp
		c.DirtyPre = false
		emit(c)
	}
	if rp.Tasks > 2 {
		c := rp
		c.Tasks = rp.Tasks - 1
		c.Ops = nil
		for _, o := range rp.Ops {
			if o.Task >= c.Tasks {
				o.Task = c.Tasks - 1
			}
			c.Ops = append(c.Ops, o)
		}
		emit(c)
	}
	return out
}

type builtRef struct {
	desc ocispec.Descriptor
	data []byte
	at   string // artifact type a listing must report
}

func buildSubject(i int) (ocispec.Descriptor, []byte) {
	m := ocispec.Manifest{MediaType: mtOCIManifest, Config: ocispec.Descriptor{MediaType: mtEmptyJSON, Digest: digest.FromString("{}"), Size: 2},
		Layers: []ocispec.Descriptor{}, Annotations: map[string]string{"subject": fmt.Sprint(i)}}
	m.SchemaVersion = 2
	b, _ := json.Marshal(m)
	return ocispec.Descriptor{MediaType: mtOCIManifest, Digest: digest.FromBytes(b), Size: int64(len(b))}, b
}

func buildReferrer(i int, rs RefSpec, subject ocispec.Descriptor) builtRef {
	switch rs.SubjVar {
	case 1:
		subject.MediaType = "application/vnd.docker.distribution.manifest.v2+json"
	case 2:
		subject.Size = 0
	}
	ann := map[string]string{"referrer": fmt.Sprint(i)}
	for k, v := range rs.Ann {
		ann[k] = v
	}
	var b []byte
	var mt, at string
	switch rs.Kind {
	case "artifact":
		mt, at = mtArtifact, rs.AType
		doc := map[string]any{"mediaType": mt, "artifactType": rs.AType, "subject": subject, "annotations": ann}
		b, _ = json.Marshal(doc)
	case "index":
		mt, at = mtOCIIndex, rs.AType
		ix := ocispec.Index{MediaType: mt, ArtifactType: rs.AType, Manifests: []ocispec.Descriptor{}, Subject: &subject, Annotations: ann}
		ix.SchemaVersion = 2
		b, _ = json.Marshal(ix)
	default:
		mt = mtOCIManifest
		m := ocispec.Manifest{MediaType: mt, ArtifactType: rs.AType, Config: ocispec.Descriptor{MediaType: "application/vnd.example.config+json", Digest: digest.FromString("{}"), Size: 2},
			Layers: []ocispec.Descriptor{}, Subject: &subject, Annotations: ann}
		m.SchemaVersion = 2
		b, _ = json.Marshal(m)
		at = rs.AType
		if at == "" {
			at = "application/vnd.example.config+json"
		}
	}
	return builtRef{desc: ocispec.Descriptor{MediaType: mt, Digest: digest.FromBytes(b), Size: int64(len(b))}, data: b, at: at}
}

func referrersTagOf(d ocispec.Descriptor) string {
	return strings.Replace(d.Digest.String(), ":", "-", 1)
}

func (p *referrersProp) Run(rc *RunCtx, sc *Scenario) *RunInfo {
	info := newInfo()
	var rp ReferrersParams
	if err := json.Unmarshal(sc.Params, &rp); err != nil {
		info.V = violation("harness", "", "bad params: %v", err)
		return info
	}
	var v *Verdict
	rc.Bubble(func() { v = p.run(rc, &rp, info) })
	info.V = v
	return info
}

func (p *referrersProp) run(rc *RunCtx, rp *ReferrersParams, info *RunInfo) *Verdict {
	ctx := context.Background()
	reg := NewSimRegistry(simHost, RegProfile{ReferrersAPI: false, DigestHeader: true, Location: "relative"})
	reg.Known[simRepo] = true
	if rp.FlipProbe {
		return p.flipProbe(rc, rp, info, reg)
	}
	subjects := make([]ocispec.Descriptor, rp.Subjects)
	for i := range subjects {
		d, b := buildSubject(i)
		subjects[i] = d
		reg.PutManifest(simRepo, d.MediaType, b)
	}
	refs := make([]builtRef, len(rp.Refs))
	preIndex := map[int][]ocispec.Descriptor{}
	for i, rs := range rp.Refs {
		refs[i] = buildReferrer(i, rs, subjects[rs.Subject])
		if rs.Pre {
			reg.PutManifest(simRepo, refs[i].desc.MediaType, refs[i].data)
			e := refs[i].desc
			e.ArtifactType = refs[i].at
			e.Annotations = annotationsOf(refs[i].data)
			if rs.PreUnindexed {
				continue
			}
			preIndex[rs.Subject] = append(preIndex[rs.Subject], e)
		}
	}
	dirty := map[int]bool{}
	for s, entries := range preIndex {
		if rp.DirtyPre && len(entries) > 0 {
			entries = append(entries, entries[0], ocispec.Descriptor{})
			entries = append([]ocispec.Descriptor{{}}, entries...)
			dirty[s] = true
		}
		ix := ocispec.Index{MediaType: mtOCIIndex, Manifests: entries}
		ix.SchemaVersion = 2
		b, _ := json.Marshal(ix)
		reg.PutManifest(simRepo, mtOCIIndex, b, referrersTagOf(subjects[s]))
	}
	reg.SetFaults(rp.Faults)
	repo, err := remote.NewRepository(simPrefix)
	if err != nil {
		return violation("harness", "", "NewRepository: %v", err)
	}
	repo.Client = &http.Client{Transport: reg}
	repo.SkipReferrersGC = rp.SkipGC

	type opRec struct {
		op        RefOp
		err       error
		call, ret int
		reqFrom   int
		reqTo     int
	}
	var mu sync.Mutex
	var recs []opRec
	clock := 0
	res := simrt.Run(rc.NextConfig(), func() {
		done := make(chan struct{}, rp.Tasks)
		for t := 0; t < rp.Tasks; t++ {
			t := t
			simrt.Go(func() {
				defer func() { done <- struct{}{} }()
				for _, op := range rp.Ops {
					if op.Task != t {
						continue
					}
					mu.Lock()
					clock++
					call := clock
					from := len(reg.Requests())
					mu.Unlock()
					var err error
					if op.Op == "push" {
						err = repo.Push(ctx, pushDesc(refs[op.Ref].desc, rp.Refs[op.Ref].DescVar), bytes.NewReader(refs[op.Ref].data))
					} else {
						err = repo.Delete(ctx, refs[op.Ref].desc)
					}
					mu.Lock()
					clock++
					recs = append(recs, opRec{op: op, err: err, call: call, ret: clock, reqFrom: from, reqTo: len(reg.Requests())})
					mu.Unlock()
				}
			})
		}
		for t := 0; t < rp.Tasks; t++ {
			<-done
			simrt.Yield("join")
		}
	})
	rc.Done(res)
	info.absorb(res)
	info.Outcome = string(res.Outcome)
	for k, c := range reg.Fired {
		info.Faults[k] += c
	}
	if res.Outcome != simrt.OK {
		return violation("hang-or-panic", "", "operations did not finish: %s %s %s\n%s", res.Outcome, res.Detail, res.PanicValue, res.PanicStack)
	}
	if len(reg.Invalid) > 0 {
		return violation("non-conforming-request", "", "%s", reg.Invalid[0])
	}
	describe := func() string {
		var lines []string
		sort.Slice(recs, func(i, j int) bool { return recs[i].call < recs[j].call })
		for _, r := range recs {
			lines = append(lines, fmt.Sprintf("t%d [%d,%d] %s(r%d subject %d) -> %v", r.op.Task, r.call, r.ret, r.op.Op, r.op.Ref, rp.Refs[r.op.Ref].Subject, r.err))
		}
		return strings.Join(lines, "\n")
	}
	faulty := len(reg.Fired) > 0
	// overlap probe
	for i := range recs {
		for j := range recs {
			if i != j && rp.Refs[recs[i].op.Ref].Subject == rp.Refs[recs[j].op.Ref].Subject && recs[i].call < recs[j].ret && recs[j].call < recs[i].ret {
				info.Nontrivial = true
			}
		}
	}
	if faulty {
		info.Nontrivial = true
	}
	// final errors
	for _, r := range recs {
		if r.err == nil {
			continue
		}
		var re *remote.ReferrersError
		isIdxDel := errors.As(r.err, &re) && re.IsReferrersIndexDelete()
		if !faulty {
			return violation("unexpected-error", "", "fault-free %s(r%d) failed: %v\n%s", r.op.Op, r.op.Ref, r.err, describe())
		}
		if isIdxDel {
			info.Probes["referrers_index_delete_error"]++
		}
	}
	// listing after quiescence (faults off)
	reg.SetFaults(nil)
	finalOp := map[int]*opRec{}
	for i := range recs {
		r := &recs[i]
		if cur := finalOp[r.op.Ref]; cur == nil || r.call > cur.call {
			finalOp[r.op.Ref] = r
		}
	}
	touched := map[int]bool{}
	for _, r := range recs {
		// only an update that went through is known to have rewritten (and cleaned) the index
		var re *remote.ReferrersError
		if r.err == nil || (errors.As(r.err, &re) && re.IsReferrersIndexDelete()) {
			touched[rp.Refs[r.op.Ref].Subject] = true
		}
	}
	for s, subj := range subjects {
		var listed []ocispec.Descriptor
		if err := repo.Referrers(ctx, subj, "", func(ds []ocispec.Descriptor) error {
			listed = append(listed, ds...)
			return nil
		}); err != nil {
			return violation("unexpected-error", "", "Referrers(subject %d) after quiescence failed: %v\n%s", s, err, describe())
		}
		count := map[digest.Digest]int{}
		byDigest := map[digest.Digest]ocispec.Descriptor{}
		for _, d := range listed {
			count[d.Digest]++
			byDigest[d.Digest] = d
		}
		model := reg.ReferrersModel(simRepo, subj.Digest)
		modelSet := map[digest.Digest]ocispec.Descriptor{}
		for _, d := range model {
			modelSet[d.Digest] = d
		}
		foreign := map[digest.Digest]bool{}
		// whatever is listed exists. With the failures injected here (exchanges on the index,
		// never on a referrer manifest itself) a Delete removes the manifest only after the
		// index stopped naming it, and a Push adds it before the index names it.
		for d := range count {
			if d == "" {
				continue
			}
			if _, ok := reg.HasManifest(simRepo, d); !ok {
				return violation("referrers-lists-missing-manifest", "", "Referrers(subject %d) lists %s, which the registry does not hold\n%s", s, d.Encoded()[:12], describe())
			}
		}
		for i, rs := range rp.Refs {
			if rs.Subject != s {
				continue
			}
			d := refs[i].desc.Digest
			fo := finalOp[i]
			expectLive, judged := rs.Pre, true
			if rs.Pre && rs.PreUnindexed && (fo == nil || fo.err != nil || fo.op.Op != "push") {
				// nobody is obliged to list a manifest that reached the registry behind the
				// client's back, unless it was pushed (again) through this Repository
				foreign[d] = true
				if fo == nil || fo.err != nil {
					continue
				}
			}
			if fo != nil {
				var re *remote.ReferrersError
				idxDel := fo.err != nil && errors.As(fo.err, &re) && re.IsReferrersIndexDelete()
				switch {
				case fo.err == nil:
					expectLive = fo.op.Op == "push"
				case idxDel && fo.op.Op == "push":
					expectLive = true // the manifest and the new index are in place; only the old index could not be removed
				default:
					// a failed operation may or may not be reflected. That includes a Delete that ends
					// with a referrers-index-delete error: the manifest itself is then not deleted, and
					// whether the index still lists it depends on whether a new index had to be written
					judged = false
				}
				// an earlier failed operation on the same referrer does not blur the last successful one
			}
			if !judged {
				continue
			}
			if expectLive && count[d] == 0 {
				return violation("referrer-lost", "", "referrer r%d of subject %d is live (last operation %v) but Referrers() does not list it\n%s", i, s, opStr(fo), describe())
			}
			if !expectLive && count[d] > 0 {
				return violation("referrer-not-removed", "", "referrer r%d of subject %d was deleted (last operation %v) but Referrers() still lists it\n%s", i, s, opStr(fo), describe())
			}
			if count[d] > 1 && (touched[s] || !dirty[s]) {
				return violation("referrer-listed-twice", "", "referrer r%d of subject %d is listed %d times\n%s", i, s, count[d], describe())
			}
			if expectLive {
				got := byDigest[d]
				if got.ArtifactType != refs[i].at {
					return violation("referrer-metadata-wrong", "", "referrer r%d is listed with artifactType %q, its manifest says %q\n%s", i, got.ArtifactType, refs[i].at, describe())
				}
				if !sameAnn(got.Annotations, annotationsOf(refs[i].data)) {
					return violation("referrer-metadata-wrong", "", "referrer r%d is listed with annotations %v, its manifest says %v\n%s", i, got.Annotations, annotationsOf(refs[i].data), describe())
				}
			}
		}
		if !faulty {
			// equals what an API-capable registry would list
			for d := range count {
				if d == "" {
					if touched[s] || !dirty[s] {
						return violation("empty-descriptor-listed", "", "Referrers(subject %d) lists an empty descriptor\n%s", s, describe())
					}
					continue // an index nobody updated is listed as it is
				}
				if _, ok := modelSet[d]; !ok {
					return violation("referrers-differ-from-api-model", "", "Referrers(subject %d) lists %s which no stored manifest with that subject has\n%s", s, d.Encoded()[:12], describe())
				}
			}
			for d := range modelSet {
				if foreign[d] {
					continue
				}
				if count[d] == 0 {
					return violation("referrers-differ-from-api-model", "", "Referrers(subject %d) omits stored referrer %s\n%s", s, d.Encoded()[:12], describe())
				}
			}
		}
	}
	// superseded index manifests are gone (fault-free, GC on)
	if !faulty && !rp.SkipGC {
		current := map[digest.Digest]bool{}
		for _, subj := range subjects {
			if d, ok := reg.TagOf(simRepo, referrersTagOf(subj)); ok {
				current[d] = true
			}
		}
		known := map[digest.Digest]bool{}
		for _, s := range subjects {
			known[s.Digest] = true
		}
		for _, r := range refs {
			known[r.desc.Digest] = true
		}
		for _, d := range reg.ManifestDigests(simRepo) {
			if known[d] || current[d] {
				continue
			}
			// an untouched subject's pre-existing index stays
			return violation("dangling-referrers-index", "", "the registry still holds superseded referrers index %s\n%s", d.Encoded()[:12], describe())
		}
	}
	info.StateHash = regStateHash(reg, simRepo)
	info.CaseHash = simrt.Mix(info.CaseHash, info.StateHash)
	info.Probes["ops"] += len(recs)
	// several changes of one subject written by fewer index uploads: they were merged
	okOps := map[int]int{}
	for _, r := range recs {
		if r.err == nil {
			okOps[rp.Refs[r.op.Ref].Subject]++
		}
	}
	for sIdx, subj := range subjects {
		puts := 0
		for _, rq := range reg.Requests() {
			if rq.Class == "manifest" && rq.Method == "PUT" && rq.Ref == referrersTagOf(subj) && rq.Status == 201 {
				puts++
			}
		}
		if puts > 0 && okOps[sIdx] > puts {
			info.Probes["index_updates_merged"]++
		}
	}
	info.Sample = map[string]any{"subjects": rp.Subjects, "refs": len(rp.Refs), "tasks": rp.Tasks, "ops": len(rp.Ops), "faults": rp.Faults, "skip_gc": rp.SkipGC, "dirty_pre": rp.DirtyPre, "requests": len(reg.Requests())}
	return nil
}

// flipProbe: the detected capability never changes once set. The registry
// contradicts itself; whichever signal the repository saw first must govern
// every later operation.
func (p *referrersProp) flipProbe(rc *RunCtx, rp *ReferrersParams, info *RunInfo, reg *SimRegistry) *Verdict {
	ctx := context.Background()
	reg.Profile.OCISubject = true // sent although the Referrers API answers 404
	reg.AlwaysOCISubject = true
	subjects := make([]ocispec.Descriptor, rp.Subjects)
	for i := range subjects {
		d, b := buildSubject(i)
		subjects[i] = d
		reg.PutManifest(simRepo, d.MediaType, b)
	}
	refs := make([]builtRef, len(rp.Refs))
	for i, rs := range rp.Refs {
		refs[i] = buildReferrer(i, rs, subjects[rs.Subject])
	}
	repo, err := remote.NewRepository(simPrefix)
	if err != nil {
		return violation("harness", "", "NewRepository: %v", err)
	}
	repo.Client = &http.Client{Transport: reg}
	var v *Verdict
	res := simrt.Run(rc.NextConfig(), func() {
		mode := ""
		usesIndex := func(from int) (idx, api bool) {
			for _, rq := range reg.Requests()[from:] {
				if rq.Class == "manifest" && strings.HasPrefix(rq.Ref, "sha256-") {
					idx = true
				}
				if rq.Class == "referrers" {
					api = true
				}
			}
			return
		}
		// first operation decides
		from := len(reg.Requests())
		if rp.FirstOp == "list" || len(rp.Ops) == 0 {
			repo.Referrers(ctx, subjects[0], "", func([]ocispec.Descriptor) error { return nil })
			mode = "unsupported" // the API answered 404
		} else {
			op := rp.Ops[0]
			repo.Push(ctx, refs[op.Ref].desc, bytes.NewReader(refs[op.Ref].data))
			mode = "supported" // the PUT answered with OCI-Subject
		}
		_ = from
		live := map[int]bool{}
		for k, op := range rp.Ops {
			if k == 0 && mode == "supported" {
				live[op.Ref] = true
				continue
			}
			from := len(reg.Requests())
			var err error
			if op.Op == "push" && !live[op.Ref] {
				err = repo.Push(ctx, refs[op.Ref].desc, bytes.NewReader(refs[op.Ref].data))
				live[op.Ref] = err == nil
			} else if op.Op == "delete" && live[op.Ref] {
				err = repo.Delete(ctx, refs[op.Ref].desc)
				if err == nil {
					live[op.Ref] = false
				}
			} else {
				continue
			}
			idx, api := usesIndex(from)
			rc.Logf("flip probe: mode=%s %s(r%d) err=%v index=%v api=%v", mode, op.Op, op.Ref, err, idx, api)
			if mode == "unsupported" && !idx {
				v = violation("capability-flipped", "", "the repository had detected that the Referrers API is unsupported, yet %s(r%d) did not maintain the referrers tag index (err=%v): the capability flipped", op.Op, op.Ref, err)
				return
			}
			if mode == "supported" && idx {
				v = violation("capability-flipped", "", "the repository had detected the Referrers API as supported, yet %s(r%d) touched the referrers tag index: the capability flipped", op.Op, op.Ref)
				return
			}
			info.Probes["flip_probe_ops"]++
		}
	})
	rc.Done(res)
	info.absorb(res)
	info.Outcome = string(res.Outcome)
	if res.Outcome != simrt.OK {
		return violation("hang-or-panic", "", "flip probe did not finish: %s %s %s", res.Outcome, res.Detail, res.PanicValue)
	}
	if v == nil && info.Probes["flip_probe_ops"] > 0 {
		info.Nontrivial = true
	}
	info.StateHash = regStateHash(reg, simRepo)
	info.CaseHash = simrt.Mix(info.CaseHash, info.StateHash)
	return v
}

func opStr(r any) string { return fmt.Sprintf("%+v", r) }

func annotationsOf(manifest []byte) map[string]string {
	var doc struct {
		Annotations map[string]string `json:"annotations"`
	}
	json.Unmarshal(manifest, &doc)
	return doc.Annotations
}

func sameAnn(a, b map[string]string) bool {
	if len(a) != len(b) {
		return false
	}
	for k, v := range a {
		if b[k] != v {
			return false
		}
	}
	return true
}
