package harness

import (
	"context"
	"encoding/json"
	"fmt"
	"sort"
	"strings"
	"sync"

	"github.com/opencontainers/go-digest"
	ocispec "github.com/opencontainers/image-spec/specs-go/v1"
	"oras.land/oras-go/v2/content"
)

// Media types are spelled out here (not imported from oras-go's internal
// packages) so that ground truth does not follow a change of the code under test.
const (
	mtOCIManifest    = "application/vnd.oci.image.manifest.v1+json"
	mtOCIIndex       = "application/vnd.oci.image.index.v1+json"
	mtArtifact       = "application/vnd.oci.artifact.manifest.v1+json"
	mtDockerManifest = "application/vnd.docker.distribution.manifest.v2+json"
	mtDockerList     = "application/vnd.docker.distribution.manifest.list.v2+json"
	mtOCIConfig      = "application/vnd.oci.image.config.v1+json"
	mtOCILayer       = "application/vnd.oci.image.layer.v1.tar"
	mtOCILayerGzip   = "application/vnd.oci.image.layer.v1.tar+gzip"
	mtOctet          = "application/octet-stream"
	mtEmptyJSON      = "application/vnd.oci.empty.v1+json"
	mtDockerConfig   = "application/vnd.docker.container.image.v1+json"
	mtDockerLayer    = "application/vnd.docker.image.rootfs.diff.tar.gzip"
)

var foreignTypes = []string{
	"application/vnd.oci.image.layer.nondistributable.v1.tar",
	"application/vnd.oci.image.layer.nondistributable.v1.tar+gzip",
	"application/vnd.oci.image.layer.nondistributable.v1.tar+zstd",
	"application/vnd.docker.image.rootfs.foreign.diff.tar.gzip",
}

// NodeSpec is the serialisable description of one node. Children always have
// a lower index than their parents.
type NodeSpec struct {
	Kind     string            `json:"kind"` // blob | manifest | index | artifact | dmanifest | dlist
	MT       string            `json:"mt,omitempty"`
	Data     string            `json:"data,omitempty"`   // blob bytes
	Repeat   int               `json:"repeat,omitempty"` // blob bytes = Data repeated Repeat times (0 = once)
	Config   int               `json:"config,omitempty"` // manifest/dmanifest: index of the config blob
	Children []int             `json:"children,omitempty"`
	Foreign  int               `json:"foreign,omitempty"` // number of foreign layers appended (content absent everywhere)
	Subject  int               `json:"subject"`           // -1 = none
	AType    string            `json:"atype,omitempty"`
	Ann      map[string]string `json:"ann,omitempty"`
	Alg      string            `json:"alg,omitempty"`      // blob: digest algorithm (default sha256)
	Title    string            `json:"title,omitempty"`    // blob: org.opencontainers.image.title on its descriptor
	Platform string            `json:"platform,omitempty"` // manifest: os/arch advertised in index entries and config
}

type GraphSpec struct {
	Nodes []NodeSpec `json:"nodes"`
	// RichDesc: index entries and subject descriptors carry artifactType/annotations/platform
	RichDesc bool `json:"rich_desc,omitempty"`
}

type Node struct {
	ID      int
	Spec    *NodeSpec
	Data    []byte
	Desc    ocispec.Descriptor
	Succ    []int // ground-truth links (with duplicates), foreign layers excluded
	IsManif bool
}

type Graph struct {
	Spec  *GraphSpec
	Nodes []*Node
	byKey map[string]int

	pristine []map[string]string // descriptor annotations as built, see Restore

	varMu    sync.Mutex
	varCache map[string]map[string]string // descriptor variants handed to Tag, see descVariant
}

// Restore gives every node's descriptor a fresh copy of the annotations it was built
// with. The code under test is handed these descriptors; if it writes into their maps
// the oracle must not inherit the damage. It returns the nodes whose maps had changed.
func (g *Graph) Restore() (changed []int) {
	for i, n := range g.Nodes {
		want := g.pristine[i]
		same := len(want) == len(n.Desc.Annotations)
		for k, v := range want {
			if n.Desc.Annotations[k] != v {
				same = false
			}
		}
		if !same {
			changed = append(changed, i)
		}
		if want == nil {
			n.Desc.Annotations = nil
			continue
		}
		fresh := map[string]string{}
		for k, v := range want {
			fresh[k] = v
		}
		n.Desc.Annotations = fresh
	}
	return changed
}

func descKey(d ocispec.Descriptor) string {
	return d.MediaType + "|" + string(d.Digest) + "|" + fmt.Sprint(d.Size)
}

// Lookup returns the node index of a descriptor (by mediaType, digest, size) or -1.
func (g *Graph) Lookup(d ocispec.Descriptor) int {
	if i, ok := g.byKey[descKey(d)]; ok {
		return i
	}
	return -1
}

// LookupDigest returns the first node with that digest, or -1.
func (g *Graph) LookupDigest(d digest.Digest) int {
	for _, n := range g.Nodes {
		if n.Desc.Digest == d {
			return n.ID
		}
	}
	return -1
}

func isManifestKind(k string) bool { return k != "blob" }

func platformOf(s string) *ocispec.Platform {
	if s == "" {
		return nil
	}
	osv := ""
	if i := strings.Index(s, "@"); i >= 0 {
		s, osv = s[:i], s[i+1:] // os/arch[/variant]@os.version
	}
	parts := strings.SplitN(s, "/", 3)
	p := &ocispec.Platform{OS: parts[0], OSVersion: osv}
	if len(parts) > 1 {
		p.Architecture = parts[1]
	}
	if len(parts) > 2 {
		p.Variant = parts[2]
	}
	return p
}

// Build materialises the graph bottom-up.
func (gs *GraphSpec) Build() *Graph {
	g := &Graph{Spec: gs, byKey: map[string]int{}}
	ref := func(parent *NodeSpec, i int, rich bool) ocispec.Descriptor {
		c := g.Nodes[i]
		d := c.Desc
		if rich && gs.RichDesc && c.IsManif {
			d.ArtifactType = c.Spec.AType
			if len(c.Spec.Ann) > 0 {
				d.Annotations = map[string]string{}
				for k, v := range c.Spec.Ann {
					d.Annotations[k] = v
				}
				if c.Spec.Title != "" {
					d.Annotations[ocispec.AnnotationTitle] = c.Spec.Title
				}
			}
			d.Platform = platformOf(c.Spec.Platform)
		}
		return d
	}
	for i := range gs.Nodes {
		ns := &gs.Nodes[i]
		n := &Node{ID: i, Spec: ns, IsManif: isManifestKind(ns.Kind)}
		var foreign []ocispec.Descriptor
		for f := 0; f < ns.Foreign; f++ {
			data := []byte(fmt.Sprintf("foreign-%d-%d", i, f))
			foreign = append(foreign, ocispec.Descriptor{
				MediaType: foreignTypes[(i+f)%len(foreignTypes)], Digest: digest.FromBytes(data), Size: int64(len(data)),
				URLs: []string{"https://example.invalid/foreign"}})
		}
		var subj *ocispec.Descriptor
		if ns.Subject >= 0 && ns.Subject < i && ns.Kind != "dmanifest" && ns.Kind != "dlist" {
			d := ref(ns, ns.Subject, true)
			subj = &d
			n.Succ = append(n.Succ, ns.Subject)
		}
		var mt string
		switch ns.Kind {
		case "blob":
			mt = ns.MT
			if mt == "" {
				mt = mtOctet
			}
			rep := ns.Repeat
			if rep <= 0 {
				rep = 1
			}
			n.Data = []byte(strings.Repeat(ns.Data, rep))
		case "manifest", "dmanifest":
			mt = mtOCIManifest
			if ns.Kind == "dmanifest" {
				mt = mtDockerManifest
			}
			m := ocispec.Manifest{MediaType: mt, ArtifactType: ns.AType, Annotations: ns.Ann, Subject: subj}
			m.SchemaVersion = 2
			m.Config = ref(ns, ns.Config, false)
			n.Succ = append(n.Succ, ns.Config)
			m.Layers = []ocispec.Descriptor{}
			for _, c := range ns.Children {
				m.Layers = append(m.Layers, ref(ns, c, false))
				n.Succ = append(n.Succ, c)
			}
			m.Layers = append(m.Layers, foreign...)
			n.Data, _ = json.Marshal(m)
		case "index", "dlist":
			mt = mtOCIIndex
			if ns.Kind == "dlist" {
				mt = mtDockerList
			}
			ix := ocispec.Index{MediaType: mt, ArtifactType: ns.AType, Annotations: ns.Ann, Subject: subj}
			ix.SchemaVersion = 2
			ix.Manifests = []ocispec.Descriptor{}
			for _, c := range ns.Children {
				ix.Manifests = append(ix.Manifests, ref(ns, c, true))
				n.Succ = append(n.Succ, c)
			}
			n.Data, _ = json.Marshal(ix)
		case "artifact":
			mt = mtArtifact
			a := struct {
				MediaType    string               `json:"mediaType"`
				ArtifactType string               `json:"artifactType"`
				Blobs        []ocispec.Descriptor `json:"blobs,omitempty"`
				Subject      *ocispec.Descriptor  `json:"subject,omitempty"`
				Annotations  map[string]string    `json:"annotations,omitempty"`
			}{MediaType: mt, ArtifactType: ns.AType, Subject: subj, Annotations: ns.Ann}
			for _, c := range ns.Children {
				a.Blobs = append(a.Blobs, ref(ns, c, false))
				n.Succ = append(n.Succ, c)
			}
			n.Data, _ = json.Marshal(a)
		default:
			panic("bad kind " + ns.Kind)
		}
		n.Desc = ocispec.Descriptor{MediaType: mt, Digest: digest.FromBytes(n.Data), Size: int64(len(n.Data))}
		if ns.Kind == "blob" && ns.Alg == "sha512" {
			n.Desc.Digest = digest.SHA512.FromBytes(n.Data)
		}
		if ns.Title != "" {
			n.Desc.Annotations = map[string]string{ocispec.AnnotationTitle: ns.Title}
		}
		g.Nodes = append(g.Nodes, n)
		var keep map[string]string
		if n.Desc.Annotations != nil {
			keep = map[string]string{}
			for k, v := range n.Desc.Annotations {
				keep[k] = v
			}
		}
		g.pristine = append(g.pristine, keep)
		if _, dup := g.byKey[descKey(n.Desc)]; !dup {
			g.byKey[descKey(n.Desc)] = i
		}
	}
	return g
}

// Canon maps a node to the first node with the same (mediaType,digest,size).
func (g *Graph) Canon(i int) int { return g.byKey[descKey(g.Nodes[i].Desc)] }

// Reach returns the set of nodes reachable from root over ground-truth links
// (root included), as canonical ids.
func (g *Graph) Reach(roots ...int) map[int]bool {
	seen := map[int]bool{}
	var walk func(i int)
	walk = func(i int) {
		i = g.Canon(i)
		if seen[i] {
			return
		}
		seen[i] = true
		for _, c := range g.Nodes[i].Succ {
			walk(c)
		}
	}
	for _, r := range roots {
		walk(r)
	}
	return seen
}

// Preds returns ground-truth direct predecessors (canonical ids) of node i
// among the nodes in `present` (nil = all). linkFilter selects which link
// kinds count ("all" or "subject").
func (g *Graph) Preds(i int, present map[int]bool, subjectOnly bool) []int {
	ci := g.Canon(i)
	set := map[int]bool{}
	for _, p := range g.Nodes {
		pc := g.Canon(p.ID)
		if present != nil && !present[pc] {
			continue
		}
		if subjectOnly {
			if p.IsManif && p.Spec.Subject >= 0 && p.Spec.Kind != "dmanifest" && p.Spec.Kind != "dlist" && g.Canon(p.Spec.Subject) == ci {
				set[pc] = true
			}
			continue
		}
		for _, c := range p.Succ {
			if g.Canon(c) == ci {
				set[pc] = true
			}
		}
	}
	var out []int
	for k := range set {
		out = append(out, k)
	}
	sort.Ints(out)
	return out
}

func sortedKeys(m map[int]bool) []int {
	var out []int
	for k := range m {
		out = append(out, k)
	}
	sort.Ints(out)
	return out
}

// ---------- random graphs ----------

type GraphOpts struct {
	MaxNodes   int
	Referrers  bool // subjects
	Titles     bool // blobs get file names (file store)
	NoTwins    bool // no identical bytes under two media types
	NoForeign  bool
	NoDocker   bool
	NoArtifact bool
	OneDigest  bool // all digests distinct (stores keyed by digest only)
	AliasNames bool // with Titles: some blobs share a file name (different content under one name)
	SHA512     bool // some blobs are addressed by sha512
	Fanout     bool // with Referrers: many referrers share one subject (paged listings, merged index updates)
	Wide       bool // indexes list many manifests (6-12): many sibling sub-graphs are open at once
	// ManifestTitles (with Titles): some manifests carry a file name on their descriptor
	// too, so a file store keeps them as named files
	ManifestTitles bool
}

var aTypes = []string{"application/vnd.example.sbom", "application/vnd.example.sig", "application/vnd.test+type", ""}
var annKeys = []string{"org.example.key", "rev", "org.opencontainers.image.created"}
var annVals = []string{"v1", "alpha", "beta-2", "2024-01-01T00:00:00Z"}
var platforms = []string{"linux/amd64", "linux/arm64", "windows/amd64", "linux/arm/v7"}

func GenGraph(r *Rand, o GraphOpts) *GraphSpec {
	gs := &GraphSpec{RichDesc: r.Bool()}
	max := o.MaxNodes
	if max < 3 {
		max = 3
	}
	total := r.Range(2, max)
	if o.Wide {
		total = r.Range(max-8, max) // room for a broad base of manifests plus indexes over them
	}
	nBlobs := r.Range(1, (total+1)/2+1)
	var blobs, manifs []int
	hub := -1
	add := func(ns NodeSpec) int {
		gs.Nodes = append(gs.Nodes, ns)
		return len(gs.Nodes) - 1
	}
	blobTypes := []string{mtOctet, mtOCILayer, mtOCILayerGzip, mtOCIConfig, mtEmptyJSON, mtDockerLayer, "text/plain"}
	titles := 0
	var usedTitles []string
	for i := 0; i < nBlobs; i++ {
		ns := NodeSpec{Kind: "blob", Subject: -1, MT: pick(r, blobTypes)}
		switch x := r.Intn(12); {
		case x == 0:
			ns.Data = "" // empty blob
		case x == 1:
			ns.Data = "{}"
			ns.MT = mtEmptyJSON
		case x == 2:
			ns.Data = fmt.Sprintf("big-%d-", i)
			ns.Repeat = r.Range(2000, 12000) // 10-80 KiB: several 32 KiB chunks
		default:
			ns.Data = fmt.Sprintf("blob-%d-%x", i, r.U64()&0xffff)
		}
		if !o.NoTwins && !o.OneDigest && len(blobs) > 0 && r.Chance(0.12) {
			// same bytes under a second media type
			prev := gs.Nodes[pick(r, blobs)]
			ns.Data, ns.Repeat = prev.Data, prev.Repeat
			if ns.MT == prev.MT {
				ns.MT = "application/x-twin"
			}
		} else if o.Titles && r.Chance(0.5) {
			titles++
			ns.Title = fmt.Sprintf("file%d.bin", titles)
			if r.Chance(0.3) {
				ns.Title = fmt.Sprintf("dir%d/file%d.bin", titles, titles)
			}
			if o.AliasNames && len(usedTitles) > 0 && r.Chance(0.3) {
				ns.Title = pick(r, usedTitles) // another blob already claims this name
			}
			usedTitles = append(usedTitles, ns.Title)
		}
		{
			// no two nodes with the same (mediaType, bytes): they would be one node
			dup := false
			for _, b := range blobs {
				if gs.Nodes[b].Data == ns.Data && gs.Nodes[b].Repeat == ns.Repeat && (o.OneDigest || o.NoTwins || gs.Nodes[b].MT == ns.MT) {
					dup = true
				}
			}
			if dup {
				ns.Data += fmt.Sprintf("-u%d", i)
			}
		}
		if o.SHA512 && r.Chance(0.12) {
			ns.Alg = "sha512"
		}
		blobs = append(blobs, add(ns))
	}
	for len(gs.Nodes) < total {
		ns := NodeSpec{Subject: -1}
		kinds := []string{"manifest", "manifest", "manifest", "index", "index"}
		if !o.NoArtifact {
			kinds = append(kinds, "artifact")
		}
		if !o.NoDocker {
			kinds = append(kinds, "dmanifest", "dlist")
		}
		ns.Kind = pick(r, kinds)
		if o.Wide && len(manifs) < 9 {
			ns.Kind = "manifest" // first a broad base of image manifests, then indexes over them
		}
		if (ns.Kind == "index" || ns.Kind == "dlist") && len(manifs) == 0 {
			ns.Kind = "manifest"
		}
		if r.Chance(0.6) {
			ns.AType = pick(r, aTypes)
		}
		if r.Chance(0.4) {
			ns.Ann = map[string]string{pick(r, annKeys): pick(r, annVals)}
		}
		switch ns.Kind {
		case "manifest", "dmanifest":
			ns.Config = pick(r, blobs)
			k := r.Intn(4)
			for j := 0; j < k; j++ {
				ns.Children = append(ns.Children, pick(r, blobs))
			}
			if k > 0 && r.Chance(0.15) {
				ns.Children = append(ns.Children, ns.Children[0]) // same blob listed twice
			}
			if !o.NoForeign && r.Chance(0.12) {
				ns.Foreign = r.Range(1, 2)
			}
			if r.Chance(0.5) {
				ns.Platform = pick(r, platforms)
			}
		case "index", "dlist":
			k := r.Range(1, 4)
			if o.Wide && len(manifs) >= 6 {
				k = r.Range(6, 12)
			}
			for j := 0; j < k; j++ {
				ns.Children = append(ns.Children, pick(r, manifs)) // nested indexes possible
			}
			if r.Chance(0.1) {
				ns.Children = nil // empty index
			}
		case "artifact":
			k := r.Intn(3)
			for j := 0; j < k; j++ {
				ns.Children = append(ns.Children, pick(r, blobs))
			}
		}
		if o.Referrers && len(manifs) > 0 && ns.Kind != "dmanifest" && ns.Kind != "dlist" && r.Chance(0.45) {
			ns.Subject = pick(r, manifs)
			if o.Fanout {
				if hub >= 0 && r.Chance(0.6) {
					ns.Subject = hub
				} else {
					hub = ns.Subject
				}
			}
			if r.Chance(0.08) {
				ns.Subject = pick(r, blobs) // subject may be any descriptor
			}
		}
		if o.Titles && o.ManifestTitles && r.Chance(0.35) {
			ns.Title = fmt.Sprintf("manifest%d.json", len(gs.Nodes))
		}
		// make manifest bytes unique per node so that digests differ
		if ns.Ann == nil {
			ns.Ann = map[string]string{}
		}
		ns.Ann["n"] = fmt.Sprint(len(gs.Nodes))
		manifs = append(manifs, add(ns))
	}
	return gs
}

// DropNode returns a copy of the spec without node k (references removed,
// indices renumbered). A manifest that loses its config gets no replacement:
// ok is false in that case.
func (gs *GraphSpec) DropNode(k int) (*GraphSpec, bool) {
	out := &GraphSpec{RichDesc: gs.RichDesc}
	remap := func(i int) int {
		if i > k {
			return i - 1
		}
		return i
	}
	for i, ns := range gs.Nodes {
		if i == k {
			continue
		}
		c := ns
		c.Children = nil
		for _, ch := range ns.Children {
			if ch != k {
				c.Children = append(c.Children, remap(ch))
			}
		}
		if ns.Kind == "manifest" || ns.Kind == "dmanifest" {
			if ns.Config == k {
				return nil, false
			}
			c.Config = remap(ns.Config)
		}
		if ns.Subject == k {
			c.Subject = -1
		} else if ns.Subject >= 0 {
			c.Subject = remap(ns.Subject)
		}
		out.Nodes = append(out.Nodes, c)
	}
	return out, true
}

// pushAll stores the given nodes into s in index order (children first),
// ignoring already-exists style errors from stores keyed by digest only.
func pushAll(ctx context.Context, s content.Pusher, g *Graph, ids []int) error {
	for _, i := range ids {
		n := g.Nodes[i]
		if err := s.Push(ctx, n.Desc, strings.NewReader(string(n.Data))); err != nil {
			if isAlreadyExists(err) {
				continue
			}
			return fmt.Errorf("setup push node %d: %w", i, err)
		}
	}
	return nil
}
