package harness

import (
	"bytes"
	"context"
	"encoding/json"
	"errors"
	"fmt"
	"net/http"
	"path/filepath"
	"regexp"
	"sort"
	"strings"
	"time"

	ocispec "github.com/opencontainers/image-spec/specs-go/v1"
	oras "oras.land/oras-go/v2"
	"oras.land/oras-go/v2/content"
	"oras.land/oras-go/v2/content/file"
	"oras.land/oras-go/v2/content/memory"
	"oras.land/oras-go/v2/content/oci"
	"oras.land/oras-go/v2/registry/remote"
	"oras.land/oras-go/v2/zsim/simrt"
)

// CopyParams describes one copy scenario (C01-C04).
type CopyParams struct {
	Graph   GraphSpec `json:"graph"`
	Root    int       `json:"root"`
	Pre     []int     `json:"pre,omitempty"` // pre-populated destination nodes (link-closed)
	SrcKind string    `json:"src"`           // memory | oci | ocireopen | file
	DstKind string    `json:"dst"`
	API     string    `json:"api"` // Copy | CopyGraph | ExtendedCopy | ExtendedCopyGraph
	SrcRef  string    `json:"src_ref,omitempty"`
	// UserFinder (ExtendedCopy*): the caller configures FindPredecessors itself (a recorded
	// callback that asks the source), below whatever filter is drawn
	UserFinder bool `json:"user_finder,omitempty"`
	// Second (C03): after a first call that a fault made fail, the same process makes another,
	// fault-free call from this other node with Depth 1 into a fresh destination
	Second *int `json:"second,omitempty"`
	// KeepFinder (C02, with a filter): see copyEnv.keptFinder
	KeepFinder bool `json:"keep_finder,omitempty"`
	// SrcByDigest (Copy): the source reference is the root's digest string, not a tag name
	SrcByDigest bool           `json:"src_by_digest,omitempty"`
	DstRef      string         `json:"dst_ref,omitempty"`
	Concurrency int            `json:"concurrency"`
	MaxMeta     int64          `json:"max_meta,omitempty"`
	MapRoot     string         `json:"map_root,omitempty"`  // "" | child | platform:<os/arch[/variant][@os.version]>
	MapRoot2    string         `json:"map_root2,omitempty"` // C01: a second Copy of the same root into the same destination with this mapping
	Chain       bool           `json:"chain,omitempty"`     // C03: the destination, filled by the (concurrent) first copy, is the source of a second one
	Callbacks   bool           `json:"callbacks,omitempty"`
	LatencyMs   map[string]int `json:"latency_ms,omitempty"`
	Depth       int            `json:"depth,omitempty"`
	FilterAT    string         `json:"filter_at,omitempty"`
	FilterAnnK  string         `json:"filter_ann_key,omitempty"`
	FilterAnnRe string         `json:"filter_ann_re,omitempty"`
	NFaults     int            `json:"n_faults,omitempty"`
	FaultPicks  []uint64       `json:"fault_picks,omitempty"`
	Faults      []FaultSpec    `json:"faults,omitempty"`        // explicit placement (resolved from picks on first run)
	RefPageSize int            `json:"ref_page_size,omitempty"` // remote stores: Repository.ReferrerListPageSize (the registry may serve shorter pages)
	RegProfile  *RegProfile    `json:"reg_profile,omitempty"`   // remote stores: capability profile of the simulated registries
	MountFrom   bool           `json:"mount_from,omitempty"`    // remote destination: offer the sibling repository as mount source
	MountList   int            `json:"mount_list,omitempty"`    // which candidate list MountFrom returns (see mountLists)
	// C01: the context ends before the call (Op "call") or at the named operation; a call that
	// still reports success is judged like any other
	CancelAt  *FaultSpec   `json:"cancel_at,omitempty"`
	Raced     []int        `json:"raced,omitempty"`      // C04: nodes another client stores in the destination right before this copy's own Push
	MountPre  []int        `json:"mount_pre,omitempty"`  // blobs the sibling repository of the destination registry holds
	NetFaults []NetFaultAt `json:"net_faults,omitempty"` // remote stores: failing HTTP exchanges (C02)
}

// NetFaultAt places a failing HTTP exchange at one of the simulated registries.
type NetFaultAt struct {
	Store string   `json:"store"` // src | dst
	Fault NetFault `json:"fault"`
}

type copyProp struct {
	id string
}

func init() {
	register(&copyProp{"C01"})
	register(&copyProp{"C02"})
	register(&copyProp{"C03"})
	register(&copyProp{"C04"})
}

func (p *copyProp) ID() string { return p.id }

func (p *copyProp) Rule() string {
	switch p.id {
	case "C01":
		return "scenario = random Merkle DAG (<=25 nodes) + root + link-closed pre-populated destination + store pairing + Concurrency + API, executed under one seeded schedule (12%: the context ends before the call or at a drawn operation, or that operation fails - a call that still reports success is judged like any other, one that fails is not judged here); non-trivial = at least 3 tasks ran and at least 3 scheduling steps had two or more candidates; distinct = distinct event-trace hashes (task ids, yield sites, seam events with node ids)"
	case "C02":
		return "scenario as C01 plus 1-3 faults (error before/after the effect, a source body that breaks off half way with a non-EOF error, or cancellation) placed on operations the fault-free execution performed; each scenario is executed fault-free, with faults, and re-run without faults; non-trivial = a fault fired, or >=3 tasks and >=3 real scheduling choices; distinct = distinct (event-trace hash, fault plan)"
	case "C03":
		return "scenario = DAG with referrers/indexes + start node + Depth + optional artifact-type/annotation filter + source kind, under one seeded schedule (12% with one cancellation or failing operation, judged as in C01); non-trivial = an ancestor had to be followed, or >=3 tasks and >=3 real scheduling choices; distinct = distinct event-trace hashes"
	default:
		return "scenario as C01/C03 with per-operation simulated latencies, recording callbacks and optional callback fault, another client storing a node right before the copy does, or (with MountFrom) the registry failing one exchange of a mount - the copy may fail then, the counts hold all the same; non-trivial = >=3 tasks and >=3 real scheduling choices, or a callback fault fired; distinct = distinct (event-trace hash, fault plan)"
	}
}

func (p *copyProp) Components() map[string][]string {
	return map[string][]string{
		"real":        {"oras.Copy/CopyGraph/ExtendedCopy/ExtendedCopyGraph", "internal/syncutil", "internal/status", "internal/cas", "content/memory", "content/oci (real tmpfs I/O)", "content/file", "registry/remote Repository (as source and destination, over the simulated registry)", "golang.org/x/sync errgroup+semaphore (vendored copy, instrumented)", "context", "io.Pipe"},
		"substituted": {"sync.Mutex/RWMutex/WaitGroup/Once (channel-based, scheduler-controlled)", "os (pass-through with op counting)", "select choice and map iteration order (tape-driven)"},
		"stub":        {"fault-injecting wrappers around source and destination stores", "simulated OCI registry behind http.RoundTripper (reference model + request validator + response faults)"},
	}
}

func (p *copyProp) Assumptions() []string {
	return []string{
		"instrumentation rules preserve semantics (each is a refinement of behaviour Go leaves unspecified)",
		"testing/synctest quiescence detection is sound",
		"ground truth links come from the generator's own edge list, never from content.Successors",
		"sha512-addressed content is not combined with registries lacking the Referrers API (known finding recorded under C13)",
		"a competing writer (C04 'raced' fault) only stores nodes the copy itself is about to push, so it never breaks link closure on its own",
	}
}

func closeDown(g *Graph, set map[int]bool) {
	for changed := true; changed; {
		changed = false
		for i := range set {
			for _, c := range g.Nodes[i].Succ {
				if !set[g.Canon(c)] {
					set[g.Canon(c)] = true
					changed = true
				}
			}
		}
	}
}

func (p *copyProp) Gen(r *Rand, tier string, idx int) any {
	cp := &CopyParams{}
	kinds := []string{"memory", "memory", "oci", "file", "remote"}
	cp.SrcKind, cp.DstKind = pick(r, kinds), pick(r, kinds)
	maxN := 12
	if r.Chance(0.2) {
		maxN = 25
	}
	if tier == "thorough" && r.Chance(0.25) {
		maxN = 40
	}
	o := GraphOpts{MaxNodes: maxN, Referrers: true, SHA512: true}
	if cp.SrcKind == "file" || cp.DstKind == "file" {
		o.Titles = true
	}
	if p.id == "C01" && o.Titles && cp.SrcKind != "remote" && r.Chance(0.4) {
		o.ManifestTitles = true // a root resolved from the source's tag then carries a file name as well
	}
	if p.id == "C01" && cp.DstKind == "file" && cp.SrcKind != "file" && r.Chance(0.3) {
		o.AliasNames = true // two different blobs may claim one file name: the copy must fail, not lose one
	}
	if cp.SrcKind != "memory" || cp.DstKind != "memory" {
		// stores keyed by digest cannot hold the same bytes under two media types as two nodes
		o.NoTwins = true
	}
	if p.id == "C03" {
		o.Referrers = true
		cp.SrcKind = pick(r, []string{"memory", "oci", "ocireopen", "file", "remote"})
		if cp.SrcKind != "memory" {
			o.NoTwins = true
		}
		if cp.SrcKind == "file" {
			o.Titles = true
		}
	}
	remote := cp.SrcKind == "remote" || cp.DstKind == "remote"
	if cp.SrcKind == "remote" && (p.id == "C03" || r.Chance(0.3)) {
		o.Fanout = r.Bool() // several referrers of one subject: the registry lists them page by page
	}
	if remote {
		o.NoTwins, o.OneDigest, o.NoForeign = true, true, false
		api := r.Chance(0.8) // otherwise the client maintains referrers tag-schema indexes itself
		if !api {
			// the referrers tag of a sha512 subject is longer than a tag may be: recorded
			// as a known finding under C13, not re-reported by every copy check
			o.SHA512 = false
		}
		cp.RegProfile = &RegProfile{ReferrersAPI: api, OCISubject: api, DigestHeader: true, Range: r.Bool(), MountOK: r.Bool(), Location: pick(r, []string{"relative", "absolute", "query"}),
			RefCap: pick(r, []int{0, 0, 1, 2}), LinkForm: r.Intn(8), BlobRedirect: r.Chance(0.15)}
	}
	if o.Fanout && cp.RegProfile != nil {
		cp.RegProfile.RefCap = r.Range(1, 2)
	}
	if cp.RegProfile != nil && cp.RegProfile.RefCap > 0 && r.Chance(0.7) {
		cp.RefPageSize = r.Range(2, 5)
	}
	cp.Graph = *GenGraph(r, o)
	g := cp.Graph.Build()
	// root: prefer manifests
	var manifs []int
	for _, n := range g.Nodes {
		if n.IsManif {
			manifs = append(manifs, n.ID)
		}
	}
	if len(manifs) > 0 && r.Chance(0.9) {
		cp.Root = pick(r, manifs)
		if r.Chance(0.5) {
			cp.Root = manifs[len(manifs)-1-r.Intn((len(manifs)+2)/3)]
		}
	} else {
		cp.Root = r.Intn(len(g.Nodes))
	}
	cp.Concurrency = r.Range(1, 6)
	if r.Chance(0.15) {
		cp.Concurrency = 0 // default
	}
	cp.SrcRef = pick(r, []string{"latest", "v1", "a/b:c"})
	if remote {
		cp.SrcRef = pick(r, []string{"latest", "v1"})
		if !g.Nodes[cp.Root].IsManif && len(manifs) > 0 {
			cp.Root = pick(r, manifs) // a registry tags manifests only
		}
		if cp.DstKind == "remote" && r.Chance(0.4) {
			cp.MountFrom = true
			if r.Chance(0.5) {
				cp.MountList = r.Intn(len(mountLists))
			}
			for _, n := range g.Nodes {
				if !n.IsManif && r.Chance(0.5) {
					cp.MountPre = append(cp.MountPre, n.ID)
				}
			}
			if (p.id == "C01" || p.id == "C04") && len(mountLists[cp.MountList]) > 1 && r.Chance(0.3) {
				// the registry refuses mounts from one of the candidates (403): the copy may fail,
				// but it must not report a blob as mounted that is not there
				cp.RegProfile.MountDeny = "lib/empty"
			}
		}
	}
	if r.Chance(0.5) {
		cp.DstRef = pick(r, []string{"latest", "copy", "v2"})
	}
	cp.Callbacks = r.Chance(0.5)
	switch p.id {
	case "C01":
		cp.API = pick(r, []string{"Copy", "Copy", "CopyGraph"})
		if r.Chance(0.12) {
			cp.CancelAt = drawSingleFault(r, len(g.Nodes), false)
		}
		if r.Chance(0.15) && cp.DstKind != "file" {
			// another client stores the root (or some other node) right before this copy's own Push
			cp.Raced = []int{cp.Root}
			if r.Chance(0.3) {
				cp.Raced = append(cp.Raced, r.Intn(len(g.Nodes)))
			}
		}
	case "C02":
		cp.API = pick(r, []string{"Copy", "CopyGraph", "ExtendedCopyGraph"})
		if cp.API == "ExtendedCopyGraph" && !remote && r.Chance(0.3) {
			// a filter whose lookups read the source; the retry runs with the finder it installed
			cp.FilterAnnK = pick(r, annKeys)
			cp.FilterAnnRe = pick(r, []string{"", "v1", "^beta", "."})
			cp.KeepFinder = true
		}
		cp.NFaults = r.Range(1, 3)
		for i := 0; i < cp.NFaults*2; i++ {
			cp.FaultPicks = append(cp.FaultPicks, r.U64())
		}
		cp.Callbacks = r.Chance(0.7)
		if remote && r.Chance(0.5) {
			// failing exchanges instead of (or besides) failing storage operations
			for k := r.Range(1, 2); k > 0; k-- {
				st := "dst"
				if cp.SrcKind == "remote" && (cp.DstKind != "remote" || r.Bool()) {
					st = "src"
				}
				cp.NetFaults = append(cp.NetFaults, NetFaultAt{Store: st, Fault: NetFault{
					Class: pick(r, []string{"manifest", "blob", "upload-start", "upload-put", "manifest", "blob"}), Occur: r.Range(1, 6),
					Kind: pick(r, []string{"status-500", "transport", "drop-after-apply"})}})
			}
			if r.Bool() {
				cp.NFaults, cp.FaultPicks = 0, nil
			}
		}
	case "C03":
		cp.API = pick(r, []string{"ExtendedCopy", "ExtendedCopyGraph"})
		if r.Chance(0.12) {
			cp.CancelAt = drawSingleFault(r, len(g.Nodes), true)
			if r.Chance(0.6) {
				// predecessor lookups are what leaves a walk half done
				cp.CancelAt.Store, cp.CancelAt.Op, cp.CancelAt.Node, cp.CancelAt.Kind = "src", "Predecessors", r.Intn(len(g.Nodes)), "before"
			}
			n2 := r.Intn(len(g.Nodes))
			cp.Second = &n2
		}
		cp.Root = r.Intn(len(g.Nodes))
		if remote && !g.Nodes[cp.Root].IsManif {
			if cp.SrcKind == "remote" || cp.DstKind == "remote" {
				cp.API = "ExtendedCopyGraph" // a registry tags manifests only
			}
		}
		if r.Chance(0.5) {
			cp.Depth = r.Range(1, 4)
		}
		if cp.Depth == 0 && cp.SrcKind != "remote" && cp.DstKind != "remote" && r.Chance(0.4) {
			cp.Chain = true
		}
		switch x := r.Intn(4); {
		case cp.Chain:
		case x == 0:
			cp.FilterAT = pick(r, []string{"sbom", "^application/vnd\\.example\\.", "sig$", "config", "test\\+type"})
		case x == 1:
			cp.FilterAnnK = pick(r, annKeys)
			cp.FilterAnnRe = pick(r, []string{"", "v1", "^beta", "alpha|v1", "."})
		}
	case "C04":
		cp.API = pick(r, []string{"Copy", "CopyGraph", "ExtendedCopyGraph"})
		cp.Callbacks = true
		if r.Chance(0.2) && cp.DstKind != "file" {
			// (a file store answers a second push of a named file with duplicate-name, which fails the copy)
			for k := r.Range(1, 2); k > 0; k-- {
				cp.Raced = append(cp.Raced, r.Intn(len(g.Nodes)))
			}
		}
		if cp.API == "ExtendedCopyGraph" && r.Chance(0.4) {
			cp.UserFinder = true
			if r.Bool() {
				cp.FilterAnnK = pick(r, annKeys)
				cp.FilterAnnRe = pick(r, []string{"", "v1", "^beta", "."})
			} else if r.Bool() {
				cp.FilterAT = pick(r, []string{"sbom", "^application/vnd\\.example\\.", "sig$"})
			}
		}
		cp.Concurrency = r.Range(1, 8)
		if r.Chance(0.7) {
			cp.LatencyMs = map[string]int{}
			for _, n := range g.Nodes {
				for _, op := range []string{"src.Fetch", "dst.Push", "dst.Exists"} {
					if r.Chance(0.6) {
						cp.LatencyMs[fmt.Sprintf("%s.%d", op, n.ID)] = r.Range(1, 50)
					}
				}
				for _, op := range []string{"cb.OnCopySkipped", "cb.PreCopy", "cb.PostCopy"} {
					if r.Chance(0.25) {
						cp.LatencyMs[fmt.Sprintf("%s.%d", op, n.ID)] = r.Range(1, 50)
					}
				}
			}
		}
		if r.Chance(0.3) {
			cp.NFaults = 1
			cp.FaultPicks = []uint64{r.U64(), r.U64()}
			if r.Chance(0.25) {
				cp.FaultPicks[1] = uint64(cp.Root) // the root's own callbacks (Copy wraps them to tag the root)
			}
		} else if cp.MountFrom && cp.DstKind == "remote" && r.Chance(0.5) {
			// the registry fails one exchange of a mount (its POST, or the upload the mount
			// turned into after the source content had been asked for)
			cp.NetFaults = append(cp.NetFaults, NetFaultAt{Store: "dst", Fault: NetFault{
				Class: pick(r, []string{"upload-put", "upload-put", "upload-start"}), Occur: r.Range(1, 4), Kind: "status-500"}})
		}
	}
	// MapRoot (Copy only)
	if rs := &cp.Graph.Nodes[cp.Root]; p.id == "C01" && cp.API == "Copy" && rs.Kind == "manifest" && !remote && r.Chance(0.15) {
		// platform selection on an image manifest: its config names the platform; the
		// manifest is its own mapped root when it matches, otherwise the copy must fail
		cfg := &cp.Graph.Nodes[rs.Config]
		cfg.MT, cfg.Repeat, cfg.Alg, cfg.Title = mtOCIConfig, 0, "", ""
		cfg.Data = fmt.Sprintf(`{"architecture":"amd64","os":"linux","n":"%d"}`, rs.Config)
		cp.MapRoot = "platform:linux/amd64"
		if r.Chance(0.2) {
			cp.MapRoot = "platform:linux/arm64"
		}
	} else if cp.API == "Copy" && g.Nodes[cp.Root].IsManif && r.Chance(0.25) {
		rn := g.Nodes[cp.Root]
		if k := rn.Spec.Kind; (k == "index" || k == "dlist") && len(rn.Spec.Children) > 0 {
			if r.Bool() {
				cp.MapRoot = "child"
			} else {
				cp.Graph.RichDesc = true
				var kids []int
				for _, c := range rn.Spec.Children {
					if g.Nodes[c].IsManif && (len(kids) == 0 || kids[0] != c) {
						kids = append(kids, c)
					}
				}
				if p.id == "C01" && len(kids) >= 2 && r.Chance(0.4) {
					// two entries that differ only in os.version, selected one after the other
					cp.Graph.Nodes[kids[0]].Platform = "windows/amd64@10.0.17763.1"
					cp.Graph.Nodes[kids[1]].Platform = "windows/amd64@10.0.20348.2"
					cp.MapRoot, cp.MapRoot2 = "platform:windows/amd64@10.0.17763.1", "platform:windows/amd64@10.0.20348.2"
					if r.Bool() {
						cp.MapRoot, cp.MapRoot2 = cp.MapRoot2, cp.MapRoot
					}
				} else {
					for _, c := range rn.Spec.Children {
						if pf := g.Nodes[c].Spec.Platform; pf != "" && r.Chance(0.6) {
							cp.MapRoot = "platform:" + pf
							break
						}
					}
				}
			}
		}
	}
	if r.Chance(0.2) {
		// tight metadata limit: exactly the largest manifest, or a little more (a
		// smaller limit makes the copy refuse the manifest by design)
		var max int64
		for _, n := range cp.Graph.Build().Nodes {
			if n.IsManif && n.Desc.Size > max {
				max = n.Desc.Size
			}
		}
		cp.MaxMeta = max + int64(r.Intn(3))*int64(r.Intn(50))
	}
	if remote && !g.Nodes[cp.Root].IsManif {
		// a registry tags manifests only: a non-manifest root is copied by descriptor
		switch cp.API {
		case "Copy":
			cp.API, cp.MapRoot = "CopyGraph", ""
		case "ExtendedCopy":
			cp.API = "ExtendedCopyGraph"
		}
	}
	// (not with file stores: what names a file there is the title annotation of the descriptor, and a
	// descriptor resolved from a digest carries none)
	if p.id == "C01" && cp.API == "Copy" && cp.MapRoot == "" && g.Nodes[cp.Root].IsManif && cp.SrcKind != "file" && cp.DstKind != "file" && r.Chance(0.15) {
		cp.SrcByDigest = true
		if r.Bool() {
			cp.DstRef = "" // the destination reference is then the digest as well
		}
	}
	// pre-populated destination: link-closed subset
	if (p.id != "C03" && r.Chance(0.6)) || (p.id == "C03" && r.Chance(0.4)) {
		set := map[int]bool{}
		k := r.Intn(len(g.Nodes)/2 + 1)
		for i := 0; i < k; i++ {
			set[g.Canon(r.Intn(len(g.Nodes)))] = true
		}
		if r.Chance(0.1) {
			set[g.Canon(cp.Root)] = true // root already present
		}
		closeDown(g, set)
		cp.Pre = sortedKeys(set)
	}
	return cp
}

func (p *copyProp) Shrink(raw json.RawMessage) []json.RawMessage {
	var cp CopyParams
	if json.Unmarshal(raw, &cp) != nil {
		return nil
	}
	var out []json.RawMessage
	emit := func(c CopyParams) {
		b, _ := json.Marshal(c)
		out = append(out, b)
	}
	// drop faults
	for i := range cp.Faults {
		c := cp
		c.Faults = append(append([]FaultSpec{}, cp.Faults[:i]...), cp.Faults[i+1:]...)
		if len(c.Faults) == 0 {
			continue // keep at least one explicit fault so that picks are not re-resolved
		}
		emit(c)
	}
	// drop nodes (highest first), never the root
	for k := len(cp.Graph.Nodes) - 1; k >= 0; k-- {
		if k == cp.Root {
			continue
		}
		gs, ok := cp.Graph.DropNode(k)
		if !ok {
			continue
		}
		c := cp
		c.Graph = *gs
		if cp.Root > k {
			c.Root = cp.Root - 1
		}
		c.Pre = nil
		for _, x := range cp.Pre {
			if x == k {
				continue
			}
			if x > k {
				x--
			}
			c.Pre = append(c.Pre, x)
		}
		// re-close and canonicalise
		g := c.Graph.Build()
		set := map[int]bool{}
		for _, x := range c.Pre {
			set[g.Canon(x)] = true
		}
		closeDown(g, set)
		c.Pre = sortedKeys(set)
		c.Faults = nil
		bad := false
		for _, f := range cp.Faults {
			if f.Node == k {
				bad = true
			}
			if f.Node > k {
				f.Node--
			}
			c.Faults = append(c.Faults, f)
		}
		if bad {
			continue
		}
		if c.LatencyMs != nil {
			c.LatencyMs = nil
		}
		c.MountPre = nil
		emit(c)
	}
	if len(cp.Pre) > 0 {
		c := cp
		c.Pre = nil
		emit(c)
	}
	if cp.LatencyMs != nil {
		c := cp
		c.LatencyMs = nil
		emit(c)
	}
	if cp.Concurrency > 1 {
		c := cp
		c.Concurrency = cp.Concurrency - 1
		emit(c)
	}
	if cp.SrcKind != "memory" {
		c := cp
		c.SrcKind = "memory"
		emit(c)
	}
	if cp.DstKind != "memory" {
		c := cp
		c.DstKind = "memory"
		emit(c)
	}
	if cp.MaxMeta != 0 {
		c := cp
		c.MaxMeta = 0
		emit(c)
	}
	if cp.Callbacks && p.id != "C04" {
		c := cp
		c.Callbacks = false
		emit(c)
	}
	return out
}

// ---------- store construction ----------

type builtStore struct {
	kind   string
	target oras.GraphTarget
	close  func()
	dir    string
	reg    *SimRegistry // remote stores
}

func makeStore(rc *RunCtx, kind, name string) (*builtStore, error) {
	dir := filepath.Join(rc.DiskDir, name)
	switch kind {
	case "memory":
		return &builtStore{kind: kind, target: memory.New(), close: func() {}}, nil
	case "oci", "ocireopen":
		s, err := oci.New(dir)
		if err != nil {
			return nil, err
		}
		return &builtStore{kind: kind, target: s, close: func() {}, dir: dir}, nil
	case "file":
		s, err := file.New(dir)
		if err != nil {
			return nil, err
		}
		return &builtStore{kind: kind, target: s, close: func() { s.Close() }, dir: dir}, nil
	case "remote":
		prof := RegProfile{ReferrersAPI: true, OCISubject: true, DigestHeader: true, Location: "relative"}
		if rc.regProfile != nil {
			prof = *rc.regProfile
		}
		host := name + ".test"
		reg := NewSimRegistry(host, prof)
		reg.Known[simRepo], reg.Known[simOther] = true, true
		repo, err := remote.NewRepository(host + "/" + simRepo)
		if err != nil {
			return nil, err
		}
		repo.Client = &http.Client{Transport: reg}
		repo.ReferrerListPageSize = rc.refPageSize
		return &builtStore{kind: kind, target: repo, close: func() {}, reg: reg}, nil
	}
	return nil, fmt.Errorf("unknown store kind %q", kind)
}

// ---------- one execution ----------

type copyExec struct {
	mutatedDescs []int // nodes whose descriptor annotations were changed during the execution
	res          simrt.Result
	leak         string
	err          error
	desc         ocispec.Descriptor
	mon          *Monitor
	setupErr     error
	cbTrace      []Event
}

type copyEnv struct {
	g        *Graph
	cp       *CopyParams
	src, dst *builtStore
	// keptFinder (CopyParams.KeepFinder): the FindPredecessors the filters of the first execution
	// installed; later executions on this environment - the retry of C02 - use the same one, as a
	// caller does who builds its options once
	keptFinder func(ctx context.Context, src content.ReadOnlyGraphStorage, desc ocispec.Descriptor) ([]ocispec.Descriptor, error)
}

func platformMatch(have, want string) bool {
	if have == "" {
		return false
	}
	hv, wv := "", ""
	if i := strings.Index(have, "@"); i >= 0 {
		have, hv = have[:i], have[i+1:]
	}
	if i := strings.Index(want, "@"); i >= 0 {
		want, wv = want[:i], want[i+1:]
	}
	if wv != "" && hv != wv {
		return false // os.version is compared when the target names one
	}
	h, w := strings.Split(have, "/"), strings.Split(want, "/")
	if len(h) < 2 || len(w) < 2 || h[0] != w[0] || h[1] != w[1] {
		return false
	}
	if len(w) > 2 && (len(h) < 3 || h[2] != w[2]) {
		return false
	}
	return true
}

// expectedRoot is the node the copy must treat as root after MapRoot.
func expectedRoot(g *Graph, cp *CopyParams) (int, bool) {
	rn := g.Nodes[cp.Root]
	switch {
	case cp.MapRoot == "":
		return cp.Root, true
	case cp.MapRoot == "child":
		return rn.Spec.Children[0], true
	case strings.HasPrefix(cp.MapRoot, "platform:") && rn.Spec.Kind == "manifest":
		// an image manifest is selected (as itself) when its config's platform matches
		var pf struct{ OS, Architecture, Variant string }
		if json.Unmarshal(g.Nodes[rn.Spec.Config].Data, &pf) != nil {
			return -1, false
		}
		have := pf.OS + "/" + pf.Architecture
		if pf.Variant != "" {
			have += "/" + pf.Variant
		}
		if platformMatch(have, strings.TrimPrefix(cp.MapRoot, "platform:")) {
			return cp.Root, true
		}
		return -1, false
	case strings.HasPrefix(cp.MapRoot, "platform:"):
		want := strings.TrimPrefix(cp.MapRoot, "platform:")
		for _, c := range rn.Spec.Children {
			if g.Nodes[c].IsManif && platformMatch(g.Nodes[c].Spec.Platform, want) {
				return c, true
			}
		}
		return -1, false
	}
	return cp.Root, true
}

// mountLists: candidate repositories MountFrom offers; only simOther can hold the
// blob, the others make the registry fall back to an upload.
var mountLists = [][]string{
	{simOther},
	{"lib/empty", simOther},
	{simOther, "lib/empty"},
	{"lib/empty", "lib/void"},
	{"lib/empty", "lib/void", simOther},
}

func setupStores(rc *RunCtx, g *Graph, cp *CopyParams) (*copyEnv, error) {
	ctx := context.Background()
	rc.regProfile = cp.RegProfile
	rc.refPageSize = cp.RefPageSize
	src, err := makeStore(rc, cp.SrcKind, "src")
	if err != nil {
		return nil, err
	}
	dst, err := makeStore(rc, cp.DstKind, "dst")
	if err != nil {
		return nil, err
	}
	var all []int
	for i := range g.Nodes {
		all = append(all, i)
	}
	if err := pushAll(ctx, src.target, g, all); err != nil {
		return nil, err
	}
	if cp.SrcKind != "remote" || g.Nodes[cp.Root].IsManif {
		if err := src.target.Tag(ctx, g.Nodes[cp.Root].Desc, cp.SrcRef); err != nil {
			return nil, fmt.Errorf("setup tag: %w", err)
		}
	}
	if dst.reg != nil {
		preloadRegistry(dst.reg, g, simOther, cp.MountPre)
	}
	if cp.SrcKind == "ocireopen" {
		s, err := oci.New(src.dir)
		if err != nil {
			return nil, fmt.Errorf("reopen: %w", err)
		}
		src.target = s
	}
	if err := pushAll(ctx, dst.target, g, cp.Pre); err != nil {
		return nil, err
	}
	return &copyEnv{g: g, cp: cp, src: src, dst: dst}, nil
}

func (env *copyEnv) exec(rc *RunCtx, faults []FaultSpec, checks func(m *Monitor) []func(Event) *Verdict, scratch bool, withNet ...bool) *copyExec {
	return env.exec2(rc, faults, checks, scratch, len(withNet) > 0 && withNet[0])
}

func (env *copyEnv) exec2(rc *RunCtx, faults []FaultSpec, checks func(m *Monitor) []func(Event) *Verdict, scratch bool, withNet bool) *copyExec {
	ex := &copyExec{}
	g, cp := env.g, env.cp
	mon := NewMonitor(g)
	mon.faults = faults
	for _, bs := range []*builtStore{env.src, env.dst} {
		if bs.reg != nil {
			bs.reg.SetFaults(nil)
			bs.reg.ResetFaultCounters()
		}
	}
	if withNet {
		for _, nf := range cp.NetFaults {
			bs := env.dst
			if nf.Store == "src" {
				bs = env.src
			}
			if bs.reg != nil {
				bs.reg.faults = append(bs.reg.faults, nf.Fault)
			}
		}
	}
	for k, ms := range cp.LatencyMs {
		mon.Latency[k] = time.Duration(ms) * time.Millisecond
	}
	if checks != nil {
		mon.checks = checks(mon)
	}
	ex.mon = mon
	srcS := &SimStore{Name: "src", Inner: env.src.target, M: mon, Gauge: true}
	dstS := &SimStore{Name: "dst", Inner: env.dst.target, M: mon, Gauge: true}
	var src oras.ReadOnlyGraphTarget = srcS
	var dst oras.Target = dstS
	var srcStorage content.ReadOnlyStorage = StorageOnly{srcS}
	var dstStorage content.Storage = StorageOnly{dstS}
	if env.src.kind == "remote" {
		src = &SimRemote{srcS}
	}
	if env.dst.kind == "remote" {
		dr := &SimRemote{dstS}
		dst, dstStorage = dr, dr // CopyGraph sees the Mounter too
	}
	main := func() {
		ctx, cancel := context.WithCancel(context.Background())
		defer cancel()
		mon.cancel = cancel
		if cp.CancelAt != nil && cp.CancelAt.Op == "call" && !scratch {
			cancel()
			mon.mu.Lock()
			mon.firedK["cancel"]++
			mon.mu.Unlock()
		}
		var gopts oras.CopyGraphOptions
		gopts.Concurrency = cp.Concurrency
		gopts.MaxMetadataBytes = cp.MaxMeta
		if cp.Callbacks {
			gopts.PreCopy = func(ctx context.Context, d ocispec.Descriptor) error { return mon.callback("PreCopy", g.Lookup(d)) }
			gopts.PostCopy = func(ctx context.Context, d ocispec.Descriptor) error { return mon.callback("PostCopy", g.Lookup(d)) }
			gopts.OnCopySkipped = func(ctx context.Context, d ocispec.Descriptor) error {
				return mon.callback("OnCopySkipped", g.Lookup(d))
			}
			gopts.OnMounted = func(ctx context.Context, d ocispec.Descriptor) error {
				return mon.callback("OnMounted", g.Lookup(d))
			}
		}
		if cp.MountFrom && env.dst.kind == "remote" {
			gopts.MountFrom = func(ctx context.Context, d ocispec.Descriptor) ([]string, error) {
				if err := mon.callback("MountFrom", g.Lookup(d)); err != nil {
					return nil, err
				}
				return mountLists[cp.MountList%len(mountLists)], nil
			}
		}
		rootDesc := g.Nodes[cp.Root].Desc
		switch cp.API {
		case "Copy":
			opts := oras.CopyOptions{CopyGraphOptions: gopts}
			switch {
			case cp.MapRoot == "child":
				opts.MapRoot = func(ctx context.Context, s content.ReadOnlyStorage, root ocispec.Descriptor) (ocispec.Descriptor, error) {
					if err := mon.callback("MapRoot", g.Lookup(root)); err != nil {
						return ocispec.Descriptor{}, err
					}
					return g.Nodes[g.Nodes[cp.Root].Spec.Children[0]].Desc, nil
				}
			case strings.HasPrefix(cp.MapRoot, "platform:"):
				opts.WithTargetPlatform(platformOf(strings.TrimPrefix(cp.MapRoot, "platform:")))
			}
			ex.desc, ex.err = oras.Copy(ctx, src, cp.SrcRef, dst, cp.DstRef, opts)
		case "CopyGraph":
			ex.err = oras.CopyGraph(ctx, srcStorage, dstStorage, rootDesc, gopts)
		case "ExtendedCopy", "ExtendedCopyGraph":
			eo := oras.ExtendedCopyGraphOptions{CopyGraphOptions: gopts, Depth: cp.Depth}
			if cp.UserFinder {
				eo.FindPredecessors = func(ctx context.Context, s content.ReadOnlyGraphStorage, d ocispec.Descriptor) ([]ocispec.Descriptor, error) {
					n := g.Lookup(d)
					if err := mon.callback("FindPredecessors", n); err != nil {
						if n%2 == 1 {
							// a finder that had collected a part of its answer when it failed
							ps, _ := s.Predecessors(ctx, d)
							return ps, err
						}
						return nil, err
					}
					return s.Predecessors(ctx, d)
				}
			}
			if cp.KeepFinder && env.keptFinder != nil && !scratch {
				eo.FindPredecessors = env.keptFinder
			} else {
				if cp.FilterAT != "" {
					eo.FilterArtifactType(regexp.MustCompile(cp.FilterAT))
				}
				if cp.FilterAnnK != "" {
					var re *regexp.Regexp
					if cp.FilterAnnRe != "" {
						re = regexp.MustCompile(cp.FilterAnnRe)
					}
					eo.FilterAnnotation(cp.FilterAnnK, re)
				}
				if cp.KeepFinder && !scratch {
					env.keptFinder = eo.FindPredecessors
				}
			}
			if cp.API == "ExtendedCopy" {
				ex.desc, ex.err = oras.ExtendedCopy(ctx, src, cp.SrcRef, dst, cp.DstRef, oras.ExtendedCopyOptions{ExtendedCopyGraphOptions: eo})
			} else {
				ex.err = oras.ExtendedCopyGraph(ctx, src, dstStorage, rootDesc, eo)
			}
		}
	}
	if scratch {
		ex.res = simrt.Run(rc.ScratchConfig(), main)
		return ex
	}
	ex.res = simrt.Run(rc.NextConfig(), main)
	if ch := env.g.Restore(); len(ch) > 0 {
		// the code under test wrote into descriptor annotation maps it was handed; the
		// oracle goes on with the descriptors as built
		ex.mutatedDescs = ch
	}
	for _, bs := range []*builtStore{env.src, env.dst} {
		if bs.reg != nil {
			bs.reg.SetFaults(nil) // the oracles talk to the registries too
		}
	}
	rc.Done(ex.res)
	rc.Logf("== %s returned err=%v", cp.API, ex.err)
	return ex
}

// ---------- oracles ----------

func fetchAllInner(t any, d ocispec.Descriptor) ([]byte, error) {
	return content.FetchAll(context.Background(), t.(content.Fetcher), d)
}

func existsInner(t any, d ocispec.Descriptor) bool {
	ok, err := t.(content.ReadOnlyStorage).Exists(context.Background(), d)
	return err == nil && ok
}

// checkComplete: every node of want exists in dst with identical bytes.
func checkComplete(env *copyEnv, want map[int]bool, class string) *Verdict {
	for _, i := range sortedKeys(want) {
		n := env.g.Nodes[i]
		if !existsInner(env.dst.target, n.Desc) {
			return violation(class, "", "node %d (%s, %s) reachable from the root is missing in the destination after success", i, n.Spec.Kind, n.Desc.Digest)
		}
		b, err := fetchAllInner(env.dst.target, n.Desc)
		if err != nil {
			return violation(class, "", "node %d exists in destination but FetchAll fails: %v", i, err)
		}
		if !bytes.Equal(b, n.Data) {
			return violation(class, "", "node %d bytes differ in destination", i)
		}
	}
	return nil
}

// checkClosed: the destination is closed under links.
func checkClosed(env *copyEnv, class string) *Verdict {
	g := env.g
	for _, n := range g.Nodes {
		if !existsInner(env.dst.target, n.Desc) {
			continue
		}
		for _, c := range n.Succ {
			if !existsInner(env.dst.target, g.Nodes[c].Desc) {
				return violation(class, "", "destination holds node %d (%s) but not its successor %d", n.ID, n.Spec.Kind, c)
			}
		}
	}
	return nil
}

// titlesCollide reports whether two different blobs of the graph carry the same file name.
func titlesCollide(g *Graph) bool {
	seen := map[string]int{}
	for _, n := range g.Nodes {
		if t := n.Spec.Title; t != "" {
			if o, ok := seen[t]; ok && g.Canon(o) != g.Canon(n.ID) {
				return true
			}
			seen[t] = n.ID
		}
	}
	return false
}

func sameContent(a, b ocispec.Descriptor) bool {
	return a.MediaType == b.MediaType && a.Digest == b.Digest && a.Size == b.Size
}

// ancestors computes the upward closure of start following predecessor edges
// accepted by follow(p); dist receives shortest distances.
func ancestors(g *Graph, start int, subjectOnly bool, follow func(p int) bool) map[int]int {
	dist := map[int]int{g.Canon(start): 0}
	queue := []int{g.Canon(start)}
	for len(queue) > 0 {
		x := queue[0]
		queue = queue[1:]
		for _, p := range g.Preds(x, nil, subjectOnly) {
			if _, seen := dist[p]; seen || !follow(p) {
				continue
			}
			dist[p] = dist[x] + 1
			queue = append(queue, p)
		}
	}
	return dist
}

// filter ground truth: returns (definitely followed, possibly followed)
func filterTruth(g *Graph, cp *CopyParams, p int) (def, maybe bool) {
	n := g.Nodes[p]
	if cp.FilterAT == "" && cp.FilterAnnK == "" {
		return true, true
	}
	if cp.FilterAT != "" {
		re := regexp.MustCompile(cp.FilterAT)
		at := n.Spec.AType
		switch n.Spec.Kind {
		case "manifest":
			if at == "" {
				at = g.Nodes[n.Spec.Config].Desc.MediaType
			}
			m := re.MatchString(at)
			return m, m
		case "artifact":
			m := re.MatchString(at)
			return m, m
		default:
			// indexes and docker kinds: the statement speaks of a manifest's
			// artifactType-else-config-media-type; for kinds without a config the
			// outcome is left unjudged.
			return false, true
		}
	}
	v, ok := n.Spec.Ann[cp.FilterAnnK]
	if !ok {
		return false, false
	}
	if cp.FilterAnnRe == "" {
		return true, true
	}
	m := regexp.MustCompile(cp.FilterAnnRe).MatchString(v)
	return m, m
}

func presentSet(env *copyEnv) map[int]bool {
	out := map[int]bool{}
	for _, n := range env.g.Nodes {
		if existsInner(env.dst.target, n.Desc) {
			out[env.g.Canon(n.ID)] = true
		}
	}
	return out
}

// wantSets returns the set that must be present after success (lower) and, if
// bounded, the set outside of which nothing may have been copied (upper; nil = unbounded).
func wantSets(env *copyEnv) (lower, upper map[int]bool, ok bool) {
	g, cp := env.g, env.cp
	switch cp.API {
	case "Copy", "CopyGraph":
		root, ok := expectedRoot(g, cp)
		if !ok {
			return nil, nil, false
		}
		return g.Reach(root), nil, true
	}
	// the source's predecessor relation: every parent for local stores, referrers (subject links) for a registry
	so := cp.SrcKind == "remote"
	defAnc := ancestors(g, cp.Root, so, func(p int) bool { d, _ := filterTruth(g, cp, p); return d })
	mayAnc := ancestors(g, cp.Root, so, func(p int) bool { _, m := filterTruth(g, cp, p); return m })
	if cp.Depth > 0 {
		lower = g.Reach(cp.Root)
		var within []int
		for a, d := range mayAnc {
			if d <= cp.Depth {
				within = append(within, a)
			}
		}
		upper = g.Reach(within...)
		return lower, upper, true
	}
	var d, m []int
	for a := range defAnc {
		d = append(d, a)
	}
	for a := range mayAnc {
		m = append(m, a)
	}
	return g.Reach(d...), g.Reach(m...), true
}

func (p *copyProp) Run(rc *RunCtx, sc *Scenario) *RunInfo {
	info := newInfo()
	var cp CopyParams
	if err := json.Unmarshal(sc.Params, &cp); err != nil {
		info.V = violation("harness", "", "bad params: %v", err)
		return info
	}
	g := cp.Graph.Build()
	if cp.SrcByDigest {
		cp.SrcRef = g.Nodes[cp.Root].Desc.Digest.String()
	}
	var v *Verdict
	leak := rc.Bubble(func() {
		v = p.runInBubble(rc, sc, &cp, g, info)
	})
	if leak != "" {
		info.Probes["goroutines_left_blocked"]++
	}
	info.V = v
	if info.Sample == nil {
		info.Sample = map[string]any{"api": cp.API, "src": cp.SrcKind, "dst": cp.DstKind, "nodes": len(cp.Graph.Nodes), "root": cp.Root,
			"concurrency": cp.Concurrency, "pre": cp.Pre, "faults": cp.Faults, "sched_policy": sc.Sched.Policy, "steps": info.Steps}
	}
	return info
}

func (p *copyProp) runInBubble(rc *RunCtx, sc *Scenario, cp *CopyParams, g *Graph, info *RunInfo) *Verdict {
	env, err := setupStores(rc, g, cp)
	if err != nil {
		// a generated scenario that the stores refuse at set-up is not a verdict on the property
		info.Outcome = "setup-skip"
		info.Probes["setup_skipped"]++
		rc.Logf("setup: %v", err)
		return nil
	}
	defer env.src.close()
	defer env.dst.close()
	before := presentSet(env)

	closure := func(m *Monitor) []func(Event) *Verdict {
		return []func(Event) *Verdict{func(ev Event) *Verdict {
			if ev.Store != "dst" || ev.Op != "Push" || ev.Node < 0 || ev.Phase != "return" {
				return nil
			}
			var out *Verdict
			simrt.Observe(func() {
				n := g.Nodes[ev.Node]
				if !existsInner(env.dst.target, n.Desc) {
					return // the push did not store anything
				}
				for _, c := range n.Succ {
					if !existsInner(env.dst.target, g.Nodes[c].Desc) {
						out = violation("push-before-successors", "", "push of node %d (%s) completed at step %d while its successor %d is not in the destination", ev.Node, n.Spec.Kind, ev.Seq, c)
						return
					}
				}
			})
			return out
		}}
	}

	account := func(ex *copyExec) {
		info.absorb(ex.res)
		for k, n := range ex.mon.firedK {
			info.Faults[k] += n
		}
		if ex.res.Leaked > 0 {
			info.Probes["tasks_left_blocked"] += ex.res.Leaked
		}
	}
	outcomeCheck := func(ex *copyExec, what string) *Verdict {
		switch ex.res.Outcome {
		case simrt.OK:
			return nil
		case simrt.Panicked:
			return violation("panic", "", "%s: panic: %s\n%s", what, ex.res.PanicValue, ex.res.PanicStack)
		default:
			return violation("hang", "", "%s: did not finish: %s (%s)", what, ex.res.Outcome, ex.res.Detail)
		}
	}

	switch p.id {
	case "C01", "C03":
		v := p.judgeCopyOnce(rc, env, info, closure, before, account, outcomeCheck)
		if v == nil && cp.Chain && p.id == "C03" && info.Outcome == string(simrt.OK) && cp.API != "Copy" && cp.API != "CopyGraph" {
			// what the first copy wrote with Concurrency goroutines is now read: the upward closure
			// of the same node, taken in the destination, must come out complete once more
			second, err := makeStore(rc, "memory", "dst2")
			if err != nil {
				return nil
			}
			cp2 := *cp
			cp2.SrcKind, cp2.DstKind, cp2.Pre, cp2.Raced = cp.DstKind, "memory", nil, nil
			if cp.DstRef != "" {
				cp2.SrcRef, cp2.DstRef = cp.DstRef, ""
			}
			src2 := env.dst
			if env.dst.kind == "oci" && env.dst.dir != "" {
				// another process reads the layout: what the concurrent writers left in index.json counts
				if s2, err := oci.New(env.dst.dir); err == nil {
					src2 = &builtStore{kind: "oci", target: s2, close: func() {}, dir: env.dst.dir}
					info.Probes["chained_second_copy_from_reopened_layout"]++
				}
			}
			env2 := &copyEnv{g: g, cp: &cp2, src: src2, dst: second}
			info.Probes["chained_second_copy_from_first_destination"]++
			return p.judgeCopyOnce(rc, env2, info, nil, map[int]bool{}, account, outcomeCheck)
		}
		if v != nil || cp.MapRoot2 == "" || info.Outcome != string(simrt.OK) {
			return v
		}
		// the same root once more, mapped differently, into the destination as the first call left it
		cp.MapRoot = cp.MapRoot2
		info.Probes["second_copy_with_other_mapping"]++
		return p.judgeCopyOnce(rc, env, info, closure, presentSet(env), account, outcomeCheck)

	case "C02":
		// phase A: fault-free on a scratch destination? No: faults are placed on the
		// operations of a fault-free run of the same scenario, executed on a
		// separate pair of stores so that the faulty run starts from the same state.
		faults := cp.Faults
		if faults == nil && cp.NFaults == 0 {
			faults = []FaultSpec{}
		}
		if faults == nil {
			rcA := &RunCtx{T: rc.T, DiskDir: filepath.Join(rc.DiskDir, "phaseA"), sc: sc}
			envA, err := setupStores(rcA, g, cp)
			if err != nil {
				info.Outcome = "setup-skip"
				return nil
			}
			exA := envA.exec(rcA, nil, nil, true)
			envA.src.close()
			envA.dst.close()
			if exA.res.Outcome != simrt.OK {
				return outcomeCheck(exA, "fault-free pre-run")
			}
			menu := exA.mon.opsSeen
			if len(menu) == 0 {
				info.Outcome = "no-ops"
				return nil
			}
			kinds := []string{"before", "before", "after", "cancel", "midread"}
			for i := 0; i < cp.NFaults && 2*i+1 < len(cp.FaultPicks); i++ {
				f := menu[cp.FaultPicks[2*i]%uint64(len(menu))]
				f.Kind = kinds[cp.FaultPicks[2*i+1]%uint64(len(kinds))]
				if f.Kind == "midread" && f.Op != "Fetch" {
					f.Kind = "before"
				}
				faults = append(faults, f)
			}
			cp.Faults = faults
			sc.Params, _ = json.Marshal(cp)
		}
		info.CaseHash = simrt.Mix(info.CaseHash, hashJSON(faults))
		ex := env.exec(rc, faults, closure, false, true)
		account(ex)
		netFired := 0
		for _, bs := range []*builtStore{env.src, env.dst} {
			if bs.reg != nil {
				for k, c := range bs.reg.Fired {
					info.Faults["http-"+k] += c
					netFired += c
				}
			}
		}
		info.Outcome = string(ex.res.Outcome)
		if v := outcomeCheck(ex, cp.API+" with faults"); v != nil {
			return v
		}
		if ex.mon.viol != nil {
			return ex.mon.viol
		}
		if v := checkClosed(env, "destination-not-closed"); v != nil {
			return v
		}
		errFaultFired := false
		for _, f := range ex.mon.fired {
			if f.Kind == "before" || f.Kind == "after" || f.Kind == "midread" {
				errFaultFired = true
			}
		}
		if len(ex.mon.fired) > 0 || netFired > 0 {
			info.Nontrivial = true
		}
		if netFired > 0 {
			errFaultFired = true
		}
		lower, _, ok := wantSets(env)
		if ex.err == nil {
			if errFaultFired {
				return violation("fault-swallowed", "", "%s returned nil although an injected failure fired: %+v", cp.API, ex.mon.fired)
			}
			if ok {
				if v := checkComplete(env, lower, "wrong-success"); v != nil {
					return v
				}
			}
		} else {
			info.Probes["failed_runs"]++
			if errors.Is(ex.err, context.Canceled) {
				info.Probes["cancelled_runs"]++
			}
		}
		if !ok {
			return nil
		}
		// retry without faults on the same destination
		ex2 := env.exec(rc, nil, closure, false)
		account(ex2)
		if v := outcomeCheck(ex2, "fault-free retry"); v != nil {
			return v
		}
		if ex2.mon.viol != nil {
			return ex2.mon.viol
		}
		if ex2.err != nil {
			return violation("retry-failed", "", "re-running %s without faults failed: %v (first run: %v)", cp.API, ex2.err, ex.err)
		}
		if v := checkComplete(env, lower, "retry-incomplete"); v != nil {
			return v
		}
		if cp.API == "Copy" {
			ref := cp.DstRef
			if ref == "" {
				ref = cp.SrcRef
			}
			if d, err := env.dst.target.Resolve(context.Background(), ref); err != nil || !sameContent(d, ex2.desc) {
				return violation("retry-incomplete", "", "after the retry %q does not resolve to the root: %v", ref, err)
			}
		}
		info.StateHash = hashJSON(sortedKeys(presentSet(env)))
		probeCopy(info, ex, cp)
		return nil

	case "C04":
		faults := cp.Faults
		if faults == nil && cp.NFaults > 0 && len(cp.FaultPicks) >= 2 {
			// a callback fault: (callback, node) drawn over the graph
			cbs := []string{"PreCopy", "PostCopy", "OnCopySkipped"}
			if cp.MountFrom {
				cbs = append(cbs, "OnMounted", "MountFrom", "MountFrom")
			}
			if cp.MapRoot == "child" {
				cbs = append(cbs, "MapRoot")
			}
			if cp.UserFinder {
				cbs = append(cbs, "FindPredecessors", "FindPredecessors")
			}
			f := FaultSpec{Store: "cb", Op: cbs[cp.FaultPicks[0]%uint64(len(cbs))], Node: int(cp.FaultPicks[1] % uint64(len(g.Nodes))), Occur: 1, Kind: "before"}
			if w := (cp.FaultPicks[0] / 1024) % 10; w < 4 {
				f.Wrap = []string{"not-found", "already-exists", "unsupported", "size-exceeds"}[w]
			}
			if f.Op == "MapRoot" {
				f.Node = cp.Root
			}
			faults = []FaultSpec{f}
			cp.Faults = faults
			sc.Params, _ = json.Marshal(cp)
		}
		for _, n := range cp.Raced {
			if n >= 0 && n < len(g.Nodes) {
				faults = append(faults[:len(faults):len(faults)], FaultSpec{Store: "dst", Op: "Push", Node: n, Occur: 1, Kind: "raced"})
			}
		}
		info.CaseHash = simrt.Mix(info.CaseHash, hashJSON(faults))
		ex := env.exec(rc, faults, nil, false, true)
		account(ex)
		if ex.mon.firedK["raced"] > 0 {
			info.Probes["push_raced_by_another_client"] += ex.mon.firedK["raced"]
		}
		netFired := 0
		if env.dst.reg != nil {
			for k, c := range env.dst.reg.Fired {
				info.Faults["http-"+k] += c
				netFired += c
			}
		}
		info.Outcome = string(ex.res.Outcome)
		if v := outcomeCheck(ex, cp.API); v != nil {
			return v
		}
		info.StateHash = hashJSON(sortedKeys(presentSet(env)))
		probeCopy(info, ex, cp)
		if env.dst.reg != nil && env.dst.reg.MountDenied > 0 {
			info.Probes["mount_denied_by_registry"]++
			netFired++
		}
		return accountingOracle(env, ex, info, netFired > 0)
	}
	return nil
}

// drawSingleFault: one cancellation or failure at the call or at a drawn operation (C01, C03:
// a call that still reports success is judged like any other).
func drawSingleFault(r *Rand, nn int, withPreds bool) *FaultSpec {
	c := &FaultSpec{Store: "src", Op: "call", Node: -1, Occur: 1, Kind: "cancel"}
	n := 5
	if withPreds {
		n = 6
	}
	switch r.Intn(n) {
	case 0:
	case 1:
		c.Op = "Resolve"
	case 2:
		c.Op, c.Node = "Fetch", r.Intn(nn)
	case 3:
		c.Store, c.Op, c.Node = "dst", "Exists", r.Intn(nn)
	case 4:
		c.Store, c.Op, c.Node = "dst", "Push", r.Intn(nn)
	default:
		c.Op, c.Node = "Predecessors", r.Intn(nn)
	}
	if c.Op != "call" && r.Bool() {
		// not a cancellation: the operation fails (before or after its effect, or its body breaks off)
		c.Kind = pick(r, []string{"before", "before", "after"})
		if c.Op == "Fetch" && r.Chance(0.3) {
			c.Kind = "midread"
		}
	}
	return c
}

// judgeCopyOnce runs the scenario's copy call once and judges it (C01, C03).
func (p *copyProp) judgeCopyOnce(rc *RunCtx, env *copyEnv, info *RunInfo, closure func(m *Monitor) []func(Event) *Verdict, before map[int]bool, account func(*copyExec), outcomeCheck func(*copyExec, string) *Verdict) *Verdict {
	g, cp := env.g, env.cp
	var racedFaults []FaultSpec
	for _, n := range cp.Raced {
		if n >= 0 && n < len(g.Nodes) {
			racedFaults = append(racedFaults, FaultSpec{Store: "dst", Op: "Push", Node: n, Occur: 1, Kind: "raced"})
		}
	}
	if cp.CancelAt != nil && cp.CancelAt.Op != "call" {
		racedFaults = append(racedFaults, *cp.CancelAt)
	}
	ex := env.exec(rc, racedFaults, closure, false)
	if ex.mon.firedK["raced"] > 0 {
		info.Probes["push_raced_by_another_client"] += ex.mon.firedK["raced"]
	}
	account(ex)
	info.Outcome = string(ex.res.Outcome)
	if v := outcomeCheck(ex, cp.API); v != nil {
		return v
	}
	if ex.mon.viol != nil {
		return ex.mon.viol
	}
	if ex.mon.firedK["cancel"] > 0 || len(ex.mon.fired) > 0 {
		if ex.err != nil {
			// what a cancelled or failed call leaves behind is the subject of C02
			info.Probes["cancelled_or_failed_call"]++
			info.Outcome = "cancelled"
			if cp.Second != nil && p.id == "C03" && env.src.kind != "remote" && !cp.Chain {
				// the process goes on: another call, from another node, must not inherit anything
				second, err := makeStore(rc, "memory", "second")
				if err != nil {
					return nil
				}
				defer second.close()
				cp2 := *cp
				cp2.Root, cp2.Depth, cp2.API, cp2.DstKind = *cp.Second%len(g.Nodes), 1, "ExtendedCopyGraph", "memory"
				cp2.CancelAt, cp2.Second, cp2.Pre, cp2.Raced, cp2.Chain, cp2.FilterAT, cp2.FilterAnnK, cp2.FilterAnnRe = nil, nil, nil, nil, false, "", "", ""
				env2 := &copyEnv{g: g, cp: &cp2, src: env.src, dst: second}
				info.Probes["second_call_after_a_failed_one"]++
				return p.judgeCopyOnce(rc, env2, info, nil, map[int]bool{}, account, outcomeCheck)
			}
			return nil
		}
		info.Probes["call_reported_success_despite_cancellation_or_failure"]++
	}
	lower, upper, ok := wantSets(env)
	if !ok {
		// no manifest matches the requested platform: the call must fail
		if ex.err == nil {
			return violation("wrong-success", "", "no manifest matches %s but Copy succeeded", cp.MapRoot)
		}
		info.Probes["platform_nomatch"]++
		return nil
	}
	if env.dst.reg != nil && env.dst.reg.MountDenied > 0 {
		info.Probes["mount_denied_by_registry"]++
	}
	if ex.err != nil {
		if errors.Is(ex.err, file.ErrDuplicateName) && titlesCollide(g) {
			// two different blobs under one file name: the file store refuses the second
			info.Probes["duplicate_name_refused"]++
			info.Outcome = "legit-refusal"
			return nil
		}
		if env.dst.reg != nil && env.dst.reg.MountDenied > 0 {
			info.Outcome = "legit-refusal"
			return nil
		}
		return violation("unexpected-error", "", "fault-free %s failed: %v", cp.API, ex.err)
	}
	if v := checkComplete(env, lower, "missing-node"); v != nil {
		return v
	}
	after := presentSet(env)
	if env.src.reg != nil && env.src.reg.PagedReferrers > 0 {
		info.Probes["src_referrers_listing_paged"]++
		if cp.FilterAnnK != "" || cp.FilterAT != "" {
			info.Probes["src_referrers_listing_paged_under_filter"]++
		}
	}
	if upper != nil {
		for _, i := range sortedKeys(after) {
			if !before[i] && !upper[i] {
				return violation("copied-too-much", "", "node %d was copied but lies outside every graph the depth/filter allows", i)
			}
		}
		if len(lower) > len(g.Reach(cp.Root)) {
			info.Nontrivial = true
			info.Probes["ancestors_followed"]++
		}
		if len(upper) < len(g.Nodes) {
			info.Probes["bound_excludes_something"]++
		}
	}
	if cp.API == "Copy" || cp.API == "ExtendedCopy" {
		want := cp.Root
		if cp.API == "Copy" {
			want, _ = expectedRoot(g, cp)
		}
		if !sameContent(ex.desc, g.Nodes[want].Desc) {
			return violation("wrong-root", "", "%s returned %s, expected node %d %s", cp.API, ex.desc.Digest, want, g.Nodes[want].Desc.Digest)
		}
		ref := cp.DstRef
		if ref == "" {
			ref = cp.SrcRef
		}
		d, err := env.dst.target.Resolve(context.Background(), ref)
		if err != nil {
			return violation("root-not-tagged", "", "destination does not resolve %q after successful %s: %v", ref, cp.API, err)
		}
		if !sameContent(d, ex.desc) {
			return violation("root-not-tagged", "", "destination resolves %q to %s, %s returned %s", ref, d.Digest, cp.API, ex.desc.Digest)
		}
		if before[g.Canon(want)] {
			info.Probes["root_already_present"]++
		}
		if cp.MapRoot != "" {
			info.Probes["maproot"]++
		}
	}
	info.StateHash = hashJSON(sortedKeys(after))
	probeCopy(info, ex, cp)
	return nil

}

func probeCopy(info *RunInfo, ex *copyExec, cp *CopyParams) {
	parents := map[int]int{}
	for _, ns := range cp.Graph.Nodes {
		seen := map[int]bool{}
		for _, c := range ns.Children {
			if seen[c] {
				info.Probes["same_blob_listed_twice"]++
			}
			if !seen[c] {
				parents[c]++
			}
			seen[c] = true
		}
	}
	for _, k := range parents {
		if k >= 2 {
			info.Probes["node_shared_by_parents"]++
			break
		}
	}
	mountOK, onMounted := 0, 0
	for _, e := range ex.mon.events {
		if e.Store == "dst" && e.Op == "Mount" && e.Phase == "return" && !e.Err {
			mountOK++
		}
		if e.Store == "cb" && e.Op == "OnMounted" && e.Phase == "invoke" {
			onMounted++
		}
	}
	if mountOK > onMounted {
		info.Probes["mount_fell_back_to_copy"] += mountOK - onMounted
	}
	conc := cp.Concurrency
	if conc <= 0 {
		conc = 3
	}
	if ex.mon.maxIn["dst.op"] >= conc || ex.mon.maxIn["src.read"] >= conc {
		info.Probes["limiter_saturated"]++
	}
	skipped := 0
	for _, e := range ex.mon.events {
		if e.Store == "cb" && e.Op == "OnCopySkipped" && e.Phase == "invoke" {
			skipped++
		}
	}
	if skipped > 0 {
		info.Probes["node_skipped_present"]++
	}
	if cp.MaxMeta > 0 {
		info.Probes["small_metadata_cache"]++
	}
}

// accountingOracle implements C04.
func accountingOracle(env *copyEnv, ex *copyExec, info *RunInfo, netFired bool) *Verdict {
	g, cp := env.g, env.cp
	conc := cp.Concurrency
	if conc <= 0 {
		conc = 3
	}
	m := ex.mon
	if m.maxIn["src.read"] > conc {
		return violation("too-many-source-reads", "", "%d source reads in flight with Concurrency %d", m.maxIn["src.read"], conc)
	}
	if m.maxIn["dst.op"] > conc {
		return violation("too-many-destination-ops", "", "%d destination operations in flight with Concurrency %d", m.maxIn["dst.op"], conc)
	}
	if m.maxIn["src.op"] > conc {
		return violation("too-many-source-ops", "", "%d source operations in flight with Concurrency %d", m.maxIn["src.op"], conc)
	}
	if m.maxIn["dst.op"] >= 2 || m.maxIn["src.read"] >= 2 {
		info.Probes["parallel_ops_observed"]++
	}
	events := m.Events()
	fetches, pushes := map[int]int{}, map[int]int{}
	type cbs struct{ pre, post, skipped, mounted []int } // positions in the event list
	cb := map[int]*cbs{}
	get := func(n int) *cbs {
		if cb[n] == nil {
			cb[n] = &cbs{}
		}
		return cb[n]
	}
	pushedOK := map[int]bool{}
	for i, e := range events {
		if e.Node < 0 {
			continue
		}
		n := g.Canon(e.Node)
		switch {
		case e.Store == "src" && e.Op == "Fetch" && e.Phase == "invoke":
			fetches[n]++
		case e.Store == "dst" && e.Op == "Push" && e.Phase == "invoke":
			pushes[n]++
		case e.Store == "dst" && e.Op == "Push" && e.Phase == "return" && !e.Err:
			pushedOK[n] = true
		case e.Store == "cb" && e.Phase == "invoke":
			switch e.Op {
			case "PreCopy":
				get(n).pre = append(get(n).pre, i)
			case "PostCopy":
				get(n).post = append(get(n).post, i)
			case "OnCopySkipped":
				get(n).skipped = append(get(n).skipped, i)
			case "OnMounted":
				get(n).mounted = append(get(n).mounted, i)
			}
		}
	}
	for _, n := range sortedKeys(toSet(fetches)) {
		if !g.Nodes[n].IsManif && fetches[n] > 1 {
			return violation("blob-fetched-twice", "", "blob node %d fetched %d times from the source", n, fetches[n])
		}
	}
	for _, n := range sortedKeys(toSet(pushes)) {
		if pushes[n] > 1 {
			return violation("pushed-twice", "", "node %d pushed %d times to the destination", n, pushes[n])
		}
	}
	faultFired := len(m.fired) > 0
	if faultFired {
		info.Nontrivial = true
		f := m.fired[0]
		if ex.err == nil {
			return violation("callback-error-lost", "", "callback %s(node %d) returned an error but the call returned nil", f.Op, f.Node)
		}
		if !errors.Is(ex.err, errInjected) && !netFired {
			// (with a registry failure in the same run either of the two errors may be the one returned)
			return violation("callback-error-lost", "", "callback %s(node %d) returned E but the call returned an error that is not E: %v", f.Op, f.Node, ex.err)
		}
		info.Probes["callback_error_propagated"]++
	} else if ex.err != nil && netFired {
		// the registry failed an exchange: the copy may fail; the counts still hold
		info.Nontrivial = true
		info.Probes["copy_failed_on_registry_failure"]++
	} else if ex.err != nil {
		return violation("unexpected-error", "", "fault-free %s failed: %v", cp.API, ex.err)
	}
	// callback accounting
	pre := map[int]bool{}
	for _, i := range cp.Pre {
		pre[g.Canon(i)] = true
	}
	for _, n := range sortedKeys(toSetB(pushedOK)) {
		c := get(n)
		if pre[n] {
			// found already present: a reference-pushing destination re-sends the root
			// to tag it; that is not a transfer
			continue
		}
		if len(c.mounted) > 0 {
			// mounted: exactly one OnMounted, neither PreCopy nor PostCopy
			if len(c.mounted) != 1 || len(c.pre) != 0 || len(c.post) != 0 {
				return violation("mount-callbacks", "", "node %d was mounted with %d OnMounted, %d PreCopy, %d PostCopy calls", n, len(c.mounted), len(c.pre), len(c.post))
			}
			info.Probes["mounted"]++
			continue
		}
		if len(c.pre) != 1 {
			return violation("precopy-count", "", "node %d was transferred with %d PreCopy calls", n, len(c.pre))
		}
		if ex.err == nil && len(c.post) != 1 {
			return violation("postcopy-count", "", "node %d was transferred with %d PostCopy calls", n, len(c.post))
		}
		if len(c.post) > 1 {
			return violation("postcopy-count", "", "node %d got %d PostCopy calls", n, len(c.post))
		}
		if len(c.post) == 1 && c.post[0] < c.pre[0] {
			return violation("callback-order", "", "node %d: PostCopy before PreCopy", n)
		}
	}
	if ex.err == nil {
		// whatever got a PreCopy was taken up for transfer: it ends with exactly one PostCopy
		// (also when the destination answered "already exists": somebody else was faster)
		var withCB []int
		for n := range cb {
			withCB = append(withCB, n)
		}
		sort.Ints(withCB)
		for _, n := range withCB {
			c := cb[n]
			if len(c.pre) == 1 && len(c.post)+len(c.mounted) != 1 {
				return violation("postcopy-count", "", "node %d got PreCopy but %d PostCopy and %d OnMounted calls in a successful copy", n, len(c.post), len(c.mounted))
			}
		}
	}
	for n, c := range cb {
		if len(c.skipped) > 1 {
			return violation("skipped-count", "", "node %d got %d OnCopySkipped calls", n, len(c.skipped))
		}
		if len(c.pre) > 1 {
			return violation("precopy-count", "", "node %d got %d PreCopy calls", n, len(c.pre))
		}
		if len(c.post) == 1 {
			// every successor's terminal notification precedes this PostCopy
			for _, s := range g.Nodes[n].Succ {
				sc := cb[g.Canon(s)]
				term := -1
				if sc != nil {
					if len(sc.post) > 0 {
						term = sc.post[0]
					}
					if len(sc.skipped) > 0 && (term < 0 || sc.skipped[0] < term) {
						term = sc.skipped[0]
					}
					if len(sc.mounted) > 0 && (term < 0 || sc.mounted[0] < term) {
						term = sc.mounted[0]
					}
				}
				if term < 0 {
					return violation("callback-order", "", "PostCopy(node %d) happened but its successor %d never got a terminal notification", n, s)
				}
				if term > c.post[0] {
					return violation("callback-order", "", "PostCopy(node %d) came before the terminal notification of its successor %d", n, s)
				}
			}
		}
	}
	return nil
}

func toSet(m map[int]int) map[int]bool {
	out := map[int]bool{}
	for k := range m {
		out[k] = true
	}
	return out
}
func toSetB(m map[int]bool) map[int]bool { return m }

var _ = sort.Ints
