package harness

import (
	"archive/tar"
	"bytes"
	"compress/gzip"
	"context"
	"encoding/json"
	"errors"
	"fmt"
	"io"
	"os"
	"path/filepath"
	"strings"

	"github.com/opencontainers/go-digest"
	ocispec "github.com/opencontainers/image-spec/specs-go/v1"
	"oras.land/oras-go/v2/content"
	"oras.land/oras-go/v2/content/file"
	"oras.land/oras-go/v2/content/memory"
	"oras.land/oras-go/v2/content/oci"
	"oras.land/oras-go/v2/errdef"
	"oras.land/oras-go/v2/internal/cas"
	"oras.land/oras-go/v2/zsim/simos"
	"oras.land/oras-go/v2/zsim/simrt"
)

// ReaderSpec: behaviour of the byte stream handed to Push (the byte-stream fault seam).
type ReaderSpec struct {
	Chunks   []int `json:"chunks,omitempty"` // sizes of successive reads, cycled; 0 = zero-byte read
	FailAt   int   `json:"fail_at"`          // offset at which Read returns an error (-1 = never)
	Truncate int   `json:"truncate"`         // EOF after this many bytes (-1 = no truncation)
	Extra    int   `json:"extra,omitempty"`  // trailing bytes appended after the content
	// WithData: the final bytes arrive together with io.EOF (or with the injected
	// error) in one Read call, as io.Reader permits
	WithData bool `json:"with_data,omitempty"`
	// Buffer: the content is handed over in a *bytes.Buffer (whole, chunks do not apply) which the
	// caller fills with other bytes as soon as Push has returned
	Buffer bool `json:"buffer,omitempty"`
}

// PusherSpec: one Push.
type PusherSpec struct {
	Content string     `json:"content"`          // bytes this pusher delivers
	Repeat  int        `json:"repeat,omitempty"` // Content repeated
	Desc    string     `json:"desc"`             // ok | wrong-digest | short | short-prefix | long | zero | zero-empty | negative | negative-empty | malformed | nocolon | unsupported
	Reader  ReaderSpec `json:"reader"`
	// ForDigestOf: use the descriptor of pusher #k's content (concurrent good/bad pushes under one digest); -1 = own
	ForDigestOf int `json:"for_digest_of"`
	// Unpack (file store, named): the bytes are a gzipped tar of a small directory and the
	// descriptor asks the store to unpack it
	Unpack string `json:"unpack,omitempty"` // directory name ("" = an ordinary file)
}

type PushParams struct {
	Target  string       `json:"target"` // memory | oci | ocistorage | file-named | file-fallback | limited | proxy | readall | verifyreader
	Pushers []PusherSpec `json:"pushers"`
	Watch   int          `json:"watch,omitempty"` // watcher iterations (concurrent observation of blobs/)
	// file-named target: every pusher writes under one file name, one after the other
	// (a failed push followed by another push of the same name)
	SameName bool `json:"same_name,omitempty"`
	// SameNameConcurrent: the pushers of one name run as concurrent tasks instead
	SameNameConcurrent bool `json:"same_name_concurrent,omitempty"`
	// limited target: push size limit (0 = 1 MiB)
	Limit int64 `json:"limit,omitempty"`
}

type pushProp struct{}

func init() { register(&pushProp{}) }

func (p *pushProp) ID() string { return "C05" }

func (p *pushProp) Rule() string {
	return "scenario = 1-4 pushers (one task each) into one store (memory, OCI Store, OCI Storage, file named/fallback, size-limited, caching proxy) or a direct ReadAll/VerifyReader call; each pusher = bytes x descriptor variant x reader behaviour (a *bytes.Buffer the caller overwrites once Push has returned, chunking, zero-byte reads, early EOF, error at offset, trailing bytes); a watcher task inspects blobs/ between the pushers' disk operations; non-trivial = the descriptor or the reader deviates from the plain case, or >=2 pushers interleave; distinct = distinct (event-trace hash, scenario outcome vector)"
}

func (p *pushProp) Components() map[string][]string {
	return map[string][]string{
		"real":        {"content.ReadAll/VerifyReader", "internal/ioutil.CopyBuffer", "internal/cas.Memory", "content.LimitedStorage", "internal/cas.Proxy (io.Pipe cache writer)", "content/oci Storage+Store (real tmpfs)", "content/file Store"},
		"substituted": {"sync primitives", "os (pass-through; each disk operation is a scheduling point)"},
		"stub":        {"faulty io.Reader", "faulty source storage behind the proxy"},
	}
}

func (p *pushProp) Assumptions() []string {
	return []string{
		"a Push whose first Size bytes match but which carries trailing bytes may succeed or fail (the statement is silent); if it succeeds the stored bytes must be exactly the first Size bytes",
		"ingest/ leftovers are counted, not judged",
	}
}

func (p *pushProp) Gen(r *Rand, tier string, idx int) any {
	pp := &PushParams{}
	pp.Target = pick(r, []string{"memory", "oci", "oci", "ocistorage", "file-named", "file-fallback", "limited", "proxy", "readall", "verifyreader"})
	n := 1
	if r.Chance(0.4) && pp.Target != "readall" && pp.Target != "verifyreader" && pp.Target != "proxy" {
		n = r.Range(2, 4)
	}
	descs := []string{"ok", "ok", "ok", "manifest-mt", "wrong-digest", "short", "short-prefix", "long", "zero", "zero-empty", "negative", "negative-empty", "malformed", "nocolon", "unsupported"}
	for i := 0; i < n; i++ {
		ps := PusherSpec{ForDigestOf: -1}
		switch r.Intn(6) {
		case 0:
			ps.Content = ""
		case 1:
			ps.Content = fmt.Sprintf("large-%d-", r.Intn(4))
			ps.Repeat = r.Range(3000, 14000)
		default:
			ps.Content = fmt.Sprintf("content-%d", r.Intn(6))
		}
		ps.Desc = pick(r, descs)
		ps.Reader = ReaderSpec{FailAt: -1, Truncate: -1}
		total := len(ps.Content)
		if ps.Repeat > 0 {
			total *= ps.Repeat
		}
		switch r.Intn(8) {
		case 0:
			ps.Reader.Truncate = r.Intn(total + 1)
		case 1:
			ps.Reader.FailAt = r.Intn(total + 2)
		case 2:
			ps.Reader.Extra = r.Range(1, 5)
		}
		ps.Reader.WithData = r.Chance(0.3)
		if r.Chance(0.15) {
			ps.Reader.Buffer = true
		} else if r.Chance(0.5) {
			k := r.Range(1, 4)
			for j := 0; j < k; j++ {
				if ps.Repeat > 0 {
					// large content: no tiny chunks (each chunk is one write operation)
					ps.Reader.Chunks = append(ps.Reader.Chunks, pick(r, []int{0, 4096, 32768, 40000, 5000}))
				} else {
					ps.Reader.Chunks = append(ps.Reader.Chunks, pick(r, []int{0, 1, 2, 7, 100, 32768, 40000}))
				}
			}
			allZero := true
			for _, c := range ps.Reader.Chunks {
				if c != 0 {
					allZero = false
				}
			}
			if allZero {
				ps.Reader.Chunks = append(ps.Reader.Chunks, 3)
			}
		}
		if i > 0 && r.Chance(0.7) {
			// a competing push under the digest of pusher 0
			ps.ForDigestOf = 0
			if r.Bool() {
				ps.Content = pp.Pushers[0].Content
				ps.Repeat = pp.Pushers[0].Repeat
				if ps.Repeat > 0 {
					ps.Reader.Chunks = nil
				}
			}
			ps.Desc = "ok"
		}
		pp.Pushers = append(pp.Pushers, ps)
	}
	if n > 1 || r.Chance(0.3) {
		pp.Watch = r.Range(5, 40)
	}
	if pp.Target == "limited" && r.Chance(0.5) {
		pp.Limit = int64(pick(r, []int{0, 1, 9, 10, 16, 5000}))
	}
	if pp.Target == "file-named" && r.Chance(0.3) {
		for i := range pp.Pushers {
			if pp.Pushers[i].ForDigestOf < 0 && pp.Pushers[i].Repeat <= 0 && r.Chance(0.7) {
				pp.Pushers[i].Unpack = fmt.Sprintf("dir%d", i)
			}
		}
	} else if pp.Target == "file-named" && r.Chance(0.5) {
		pp.SameName = true
		if len(pp.Pushers) == 1 {
			// a failing long push, then a valid shorter one
			bad := PusherSpec{Content: "previous-longer-content-", Repeat: r.Range(2, 60), Desc: pick(r, []string{"wrong-digest", "ok", "manifest-mt"}), ForDigestOf: -1, Reader: ReaderSpec{FailAt: -1, Truncate: -1}}
			if bad.Desc == "ok" {
				bad.Reader.FailAt = len(bad.Content)*bad.Repeat - r.Range(1, 5)
			}
			pp.Pushers = append([]PusherSpec{bad}, pp.Pushers...)
		}
		for i := range pp.Pushers {
			pp.Pushers[i].ForDigestOf = -1
		}
		pp.SameNameConcurrent = r.Bool()
		if pp.SameNameConcurrent && pp.Watch == 0 {
			pp.Watch = r.Range(5, 40)
		}
	}
	return pp
}

func (p *pushProp) Shrink(raw json.RawMessage) []json.RawMessage {
	var pp PushParams
	if json.Unmarshal(raw, &pp) != nil {
		return nil
	}
	var out []json.RawMessage
	emit := func(c PushParams) {
		b, _ := json.Marshal(c)
		out = append(out, b)
	}
	for i := len(pp.Pushers) - 1; i >= 1; i-- {
		c := pp
		c.Pushers = append(append([]PusherSpec{}, pp.Pushers[:i]...), pp.Pushers[i+1:]...)
		ok := true
		for j := range c.Pushers {
			if c.Pushers[j].ForDigestOf >= len(c.Pushers) {
				ok = false
			}
		}
		if ok {
			emit(c)
		}
	}
	for i := range pp.Pushers {
		if len(pp.Pushers[i].Reader.Chunks) > 0 {
			c := pp
			c.Pushers = append([]PusherSpec{}, pp.Pushers...)
			c.Pushers[i].Reader.Chunks = nil
			emit(c)
		}
		if pp.Pushers[i].Repeat > 1 {
			c := pp
			c.Pushers = append([]PusherSpec{}, pp.Pushers...)
			c.Pushers[i].Repeat = 0
			c.Pushers[i].Reader.FailAt, c.Pushers[i].Reader.Truncate = -1, -1
			emit(c)
		}
	}
	if pp.Watch > 0 {
		c := pp
		c.Watch = 0
		emit(c)
	}
	return out
}

var errReader = errors.New("injected read error")

type faultyReader struct {
	data   []byte
	off    int
	spec   ReaderSpec
	ci     int
	failed bool
}

func (f *faultyReader) Read(p []byte) (int, error) {
	if f.spec.FailAt >= 0 && f.off >= f.spec.FailAt {
		f.failed = true
		return 0, errReader
	}
	if f.off >= len(f.data) {
		return 0, io.EOF
	}
	n := len(p)
	if len(f.spec.Chunks) > 0 {
		c := f.spec.Chunks[f.ci%len(f.spec.Chunks)]
		f.ci++
		if c < n {
			n = c
		}
	}
	if rem := len(f.data) - f.off; n > rem {
		n = rem
	}
	if f.spec.FailAt >= 0 && f.off+n > f.spec.FailAt {
		n = f.spec.FailAt - f.off
	}
	copy(p, f.data[f.off:f.off+n])
	f.off += n
	if f.spec.WithData && n > 0 {
		if f.spec.FailAt >= 0 && f.off >= f.spec.FailAt {
			f.failed = true
			return n, errReader
		}
		if f.off >= len(f.data) {
			return n, io.EOF
		}
	}
	return n, nil
}

// stream returns the bytes the reader will deliver before EOF or error.
func (ps *PusherSpec) payload() []byte {
	rep := ps.Repeat
	if rep <= 0 {
		rep = 1
	}
	if ps.Unpack != "" {
		return tarGzOf(ps.Unpack, ps.Content, rep)
	}
	return []byte(strings.Repeat(ps.Content, rep))
}

// tarGzOf builds, deterministically, the gzipped tar of a directory with two files.
func tarGzOf(dir, content string, rep int) []byte {
	var buf bytes.Buffer
	gz := gzip.NewWriter(&buf)
	tw := tar.NewWriter(gz)
	for _, f := range []struct{ name, body string }{{dir + "/", ""}, {dir + "/a.txt", strings.Repeat(content, rep)}, {dir + "/sub/", ""}, {dir + "/sub/b.txt", "b:" + content}} {
		if strings.HasSuffix(f.name, "/") {
			tw.WriteHeader(&tar.Header{Name: f.name, Mode: 0o755, Typeflag: tar.TypeDir})
			continue
		}
		tw.WriteHeader(&tar.Header{Name: f.name, Mode: 0o644, Size: int64(len(f.body)), Typeflag: tar.TypeReg})
		tw.Write([]byte(f.body))
	}
	tw.Close()
	gz.Close()
	return buf.Bytes()
}

func (ps *PusherSpec) stream() (data []byte, errAt int) {
	data = ps.payload()
	if ps.Reader.Truncate >= 0 && ps.Reader.Truncate < len(data) {
		data = data[:ps.Reader.Truncate]
	}
	for i := 0; i < ps.Reader.Extra; i++ {
		data = append(data, byte('x'))
	}
	errAt = -1
	if ps.Reader.FailAt >= 0 && ps.Reader.FailAt <= len(data) {
		errAt = ps.Reader.FailAt
		data = data[:errAt]
	}
	return
}

func descriptorFor(pp *PushParams, i int) ocispec.Descriptor {
	ps := &pp.Pushers[i]
	base := ps
	if ps.ForDigestOf >= 0 && ps.ForDigestOf < len(pp.Pushers) {
		base = &pp.Pushers[ps.ForDigestOf]
	}
	full := base.payload()
	d := ocispec.Descriptor{MediaType: "application/octet-stream", Digest: digest.FromBytes(full), Size: int64(len(full))}
	kind := ps.Desc
	if base != ps {
		kind = base.Desc
	}
	switch kind {
	case "manifest-mt":
		// digest and size are right; the media type says manifest and the bytes are no JSON: a store
		// that reads manifests may refuse the push (after it has stored the bytes, which match)
		d.MediaType = ocispec.MediaTypeImageManifest
	case "wrong-digest":
		d.Digest = digest.FromBytes(append([]byte("other"), full...))
	case "short":
		if len(full) > 0 {
			d.Size = int64(len(full) - 1 - len(full)/3)
		}
	case "short-prefix":
		if len(full) > 0 {
			k := len(full) - 1 - len(full)/3
			d.Size = int64(k)
			d.Digest = digest.FromBytes(full[:k])
		}
	case "long":
		d.Size = int64(len(full) + 1 + len(full)/2)
	case "zero":
		d.Size = 0
	case "zero-empty":
		d.Size = 0
		d.Digest = digest.FromBytes(nil)
	case "negative":
		d.Size = -1
	case "negative-empty":
		d.Size = -1
		d.Digest = digest.FromBytes(nil)
	case "malformed":
		d.Digest = digest.Digest("sha256:" + strings.Repeat("z", 64))
	case "nocolon":
		d.Digest = digest.Digest("deadbeef")
	case "unsupported":
		d.Digest = digest.Digest("sha1:" + strings.Repeat("a", 40))
	}
	return d
}

func descKindOf(pp *PushParams, i int) string {
	ps := &pp.Pushers[i]
	if ps.ForDigestOf >= 0 && ps.ForDigestOf < len(pp.Pushers) {
		return pp.Pushers[ps.ForDigestOf].Desc
	}
	return ps.Desc
}

type pushJudgement struct {
	valid    bool // first Size bytes delivered without error and hashing to Digest, descriptor well-formed
	exact    bool // valid and nothing beyond Size, no error
	expected []byte
}

func judgePush(d ocispec.Descriptor, ps *PusherSpec) pushJudgement {
	data, errAt := ps.stream()
	var j pushJudgement
	if d.Size < 0 || d.Digest.Validate() != nil {
		return j
	}
	if int64(len(data)) < d.Size {
		return j // ends early or fails before Size bytes
	}
	head := data[:d.Size]
	if d.Digest.Algorithm().FromBytes(head) != d.Digest {
		return j
	}
	j.valid = true
	j.expected = head
	j.exact = int64(len(data)) == d.Size && errAt < 0
	return j
}

func listBlobs(dir string) map[string]int64 {
	out := map[string]int64{}
	algs, _ := os.ReadDir(filepath.Join(dir, "blobs"))
	for _, a := range algs {
		fs, _ := os.ReadDir(filepath.Join(dir, "blobs", a.Name()))
		for _, f := range fs {
			if fi, err := f.Info(); err == nil {
				out[a.Name()+":"+f.Name()] = fi.Size()
			}
		}
	}
	return out
}

func (p *pushProp) Run(rc *RunCtx, sc *Scenario) *RunInfo {
	info := newInfo()
	var pp PushParams
	if err := json.Unmarshal(sc.Params, &pp); err != nil {
		info.V = violation("harness", "", "bad params: %v", err)
		return info
	}
	var v *Verdict
	rc.Bubble(func() { v = p.run(rc, &pp, info) })
	info.V = v
	return info
}

type fakeSource struct {
	d  ocispec.Descriptor
	ps *PusherSpec
}

func (f *fakeSource) Fetch(ctx context.Context, d ocispec.Descriptor) (io.ReadCloser, error) {
	return io.NopCloser(&faultyReader{data: append(f.ps.payloadTrunc(), bytes.Repeat([]byte("x"), f.ps.Reader.Extra)...), spec: f.ps.Reader}), nil
}
func (f *fakeSource) Exists(ctx context.Context, d ocispec.Descriptor) (bool, error) {
	return true, nil
}

func (ps *PusherSpec) payloadTrunc() []byte {
	data := ps.payload()
	if ps.Reader.Truncate >= 0 && ps.Reader.Truncate < len(data) {
		data = data[:ps.Reader.Truncate]
	}
	return data
}

func (p *pushProp) run(rc *RunCtx, pp *PushParams, info *RunInfo) *Verdict {
	ctx := context.Background()
	dir := filepath.Join(rc.DiskDir, "store")
	var st content.Storage
	var closer func()
	isOCI := false
	switch pp.Target {
	case "memory":
		st = memory.New()
	case "oci":
		s, err := oci.New(dir)
		if err != nil {
			info.Outcome = "setup-skip"
			return nil
		}
		st, isOCI = s, true
	case "ocistorage":
		s, err := oci.NewStorage(dir)
		if err != nil {
			info.Outcome = "setup-skip"
			return nil
		}
		st, isOCI = s, true
	case "file-named", "file-fallback":
		s, err := file.New(dir)
		if err != nil {
			info.Outcome = "setup-skip"
			return nil
		}
		st = s
		closer = func() { s.Close() }
	case "limited":
		lim := pp.Limit
		if lim == 0 {
			lim = 1 << 20
		}
		st = content.LimitStorage(cas.NewMemory(), lim)
	case "proxy", "readall", "verifyreader":
	}
	if closer != nil {
		defer closer()
	}
	descs := make([]ocispec.Descriptor, len(pp.Pushers))
	judge := make([]pushJudgement, len(pp.Pushers))
	for i := range pp.Pushers {
		descs[i] = descriptorFor(pp, i)
		if pp.Target == "file-named" {
			descs[i].Annotations = map[string]string{ocispec.AnnotationTitle: fmt.Sprintf("name%d.bin", i)}
			if pp.SameName {
				descs[i].Annotations = map[string]string{ocispec.AnnotationTitle: "shared.bin"}
			}
			if pp.Pushers[i].Unpack != "" {
				descs[i].Annotations = map[string]string{ocispec.AnnotationTitle: pp.Pushers[i].Unpack, file.AnnotationUnpack: "true"}
				info.Probes["push_with_unpack"]++
			}
		}
		judge[i] = judgePush(descs[i], &pp.Pushers[i])
		ps := &pp.Pushers[i]
		if ps.Desc != "ok" || ps.Reader.FailAt >= 0 || ps.Reader.Truncate >= 0 || ps.Reader.Extra > 0 || len(ps.Reader.Chunks) > 0 || ps.Reader.WithData {
			info.Nontrivial = true
		}
	}
	errs := make([]error, len(pp.Pushers))
	results := make([][]byte, len(pp.Pushers))
	var watchViol *Verdict
	checkBlobs := func(when string) *Verdict {
		if !isOCI {
			return nil
		}
		if d := checkLayoutBlobsOnly(dir, false); d != "" {
			return violation("bad-content-visible", "", "%s: %s", when, d)
		}
		return nil
	}
	// what the store's own API shows at an instant: whatever Exists reports and Fetch
	// returns must be bytes that hash to the descriptor's digest
	checkAPI := func(when string) *Verdict {
		if st == nil {
			return nil
		}
		for i := range descs {
			d := descs[i]
			if d.Digest.Validate() != nil {
				continue
			}
			ex, err := st.Exists(ctx, d)
			if err != nil || !ex {
				continue
			}
			rd, err := st.Fetch(ctx, d)
			if err != nil {
				continue
			}
			b, err := io.ReadAll(rd)
			rd.Close()
			if err != nil {
				continue
			}
			if d.Digest.Algorithm().FromBytes(b) != d.Digest {
				return violation("bad-content-visible", "", "%s: Exists is true for %s (size %d) and Fetch returns %d bytes that do not hash to it", when, d.Digest, d.Size, len(b))
			}
			info.Probes["content_seen_through_api_while_pushes_in_flight"]++
		}
		return nil
	}
	simos.Reset(simos.Config{Budget: 100000})
	defer simos.Disable()
	var proxy *cas.Proxy
	var seq []func()
	res := simrt.Run(rc.NextConfig(), func() {
		done := make(chan struct{}, len(pp.Pushers)+1)
		for i := range pp.Pushers {
			i := i
			ps := &pp.Pushers[i]
			body := func() {
				rd := &faultyReader{data: append(ps.payloadTrunc(), bytes.Repeat([]byte("x"), ps.Reader.Extra)...), spec: ps.Reader}
				switch pp.Target {
				case "readall":
					results[i], errs[i] = content.ReadAll(rd, descs[i])
				case "verifyreader":
					vr := content.NewVerifyReader(rd, descs[i])
					b, err := io.ReadAll(vr)
					if err == nil {
						err = vr.Verify()
					}
					results[i], errs[i] = b, err
				case "proxy":
					proxy = cas.NewProxy(&fakeSource{d: descs[i], ps: ps}, cas.NewMemory())
					rc2, err := proxy.Fetch(ctx, descs[i])
					if err == nil {
						var b []byte
						b, err = io.ReadAll(rc2)
						if cerr := rc2.Close(); err == nil {
							err = cerr
						}
						results[i] = b
					}
					errs[i] = err
				default:
					if ps.Reader.Buffer && ps.Reader.FailAt < 0 {
						buf := bytes.NewBuffer(append([]byte{}, rd.data...))
						n := buf.Len()
						errs[i] = st.Push(ctx, descs[i], buf)
						// the caller's buffer serves its next purpose
						buf.Reset()
						buf.Write(bytes.Repeat([]byte("#"), n))
						info.Probes["pushed_from_a_buffer_reused_afterwards"]++
						break
					}
					errs[i] = st.Push(ctx, descs[i], rd)
				}
			}
			if pp.SameName && !pp.SameNameConcurrent {
				seq = append(seq, body) // one after the other, in one task
				continue
			}
			simrt.Go(func() {
				defer func() { done <- struct{}{} }()
				body()
			})
		}
		if pp.SameName && !pp.SameNameConcurrent {
			simrt.Go(func() {
				defer func() {
					for range pp.Pushers {
						done <- struct{}{}
					}
				}()
				for _, b := range seq {
					b()
				}
			})
		}
		if pp.Watch > 0 {
			simrt.Go(func() {
				defer func() { done <- struct{}{} }()
				for k := 0; k < pp.Watch; k++ {
					simrt.Yield("watch")
					simrt.Observe(func() {
						if v := checkBlobs(fmt.Sprintf("while pushes are in flight (watch %d)", k)); v != nil && watchViol == nil {
							watchViol = v
						}
						if v := checkAPI(fmt.Sprintf("while pushes are in flight (watch %d)", k)); v != nil && watchViol == nil {
							watchViol = v
						}
					})
				}
			})
		}
		n := len(pp.Pushers)
		if pp.Watch > 0 {
			n++
		}
		for k := 0; k < n; k++ {
			<-done
			simrt.Yield("join")
		}
	})
	rc.Done(res)
	info.absorb(res)
	info.Outcome = string(res.Outcome)
	switch res.Outcome {
	case simrt.OK:
	case simrt.Panicked:
		return violation("panic", "", "panic: %s\n%s", res.PanicValue, res.PanicStack)
	default:
		return violation("hang", "", "did not finish: %s (%s)", res.Outcome, res.Detail)
	}
	if watchViol != nil {
		return watchViol
	}
	if v := checkBlobs("after all pushes returned"); v != nil {
		return v
	}
	outcome := ""
	for i := range pp.Pushers {
		ps := &pp.Pushers[i]
		j := judge[i]
		d := descs[i]
		what := fmt.Sprintf("pusher %d (target %s, desc %s size=%d, reader %+v, %d content bytes)", i, pp.Target, ps.Desc, d.Size, ps.Reader, len(ps.payload()))
		if errs[i] == nil {
			outcome += "S"
		} else {
			outcome += "F"
		}
		switch pp.Target {
		case "readall", "verifyreader":
			if errs[i] == nil {
				if !j.exact {
					sig := ""
					if d.Size < 0 {
						sig = "negative-size-accepted-with-empty-content"
					}
					return violation("bad-read-accepted", sig, "%s: returned data without error although length/digest do not match exactly", what)
				}
				if !bytes.Equal(results[i], j.expected) {
					return violation("wrong-bytes", "", "%s: returned bytes differ from the content", what)
				}
			} else if j.exact {
				return violation("good-read-refused", "", "%s: exact matching content was refused: %v", what, errs[i])
			}
			continue
		case "proxy":
			ok, _ := proxy.Cache.Exists(ctx, d)
			if ok {
				b, err := content.FetchAll(ctx, proxy.Cache, d)
				if err != nil || !j.valid || !bytes.Equal(b, j.expected) {
					return violation("bad-content-cached", "", "%s: the proxy cached content that does not match its descriptor (valid=%v err=%v)", what, j.valid, err)
				}
				info.Probes["proxy_cached"]++
			} else if j.exact && errs[i] == nil {
				return violation("good-content-not-cached", "", "%s: exact content read through the proxy without error was not cached", what)
			}
			continue
		}
		// store targets
		if pp.Target == "limited" {
			lim := pp.Limit
			if lim == 0 {
				lim = 1 << 20
			}
			if d.Size > lim {
				// over the push limit: the size-limited wrapper must refuse it, whatever the content
				if errs[i] == nil {
					return violation("limit-ignored", "", "%s: a descriptor of %d bytes was accepted by a storage limited to %d", what, d.Size, lim)
				}
				info.Probes["over_limit_refused"]++
				continue
			}
		}
		if errs[i] == nil && !j.valid {
			// a competing good push under the same descriptor does not excuse a bad one reporting success
			sig := ""
			if d.Size < 0 {
				sig = "negative-size-accepted-with-empty-content"
			}
			return violation("bad-push-accepted", sig, "%s: Push returned nil although the first Size bytes were not delivered or do not hash to the digest", what)
		}
		if errs[i] != nil && j.exact && ps.Unpack != "" && !bytes.Equal(j.expected, ps.payload()) {
			// the named bytes are a prefix of the archive (or nothing): they match their
			// descriptor but cannot be unpacked, so the store may refuse them
			info.Probes["unpack_refused_incomplete_archive"]++
		} else if errs[i] != nil && j.exact && descKindOf(pp, i) == "manifest-mt" {
			info.Probes["unparseable_manifest_refused"]++
		} else if errs[i] != nil && j.exact {
			// refused although exact: fine only if somebody else stored the same descriptor
			other := false
			for k := range pp.Pushers {
				if k == i || descKindOf(pp, k) != "manifest-mt" {
					continue
				}
				if pp.SameName && (k < i || pp.SameNameConcurrent) && errors.Is(errs[i], file.ErrDuplicateName) {
					other = true // the refused manifest may have kept the name
				}
				if descs[k].Digest == d.Digest && errors.Is(errs[i], errdef.ErrAlreadyExists) {
					other = true // ... and its bytes, which are these bytes
				}
			}
			for k := range pp.Pushers {
				if k != i && sameContent(descs[k], d) && (pp.Target != "file-named") {
					other = true
				}
				if k != i && pp.SameName && errs[k] == nil && errors.Is(errs[i], file.ErrDuplicateName) {
					other = true // the name was taken by an earlier successful push
				}
			}
			if !other {
				return violation("good-push-refused", "", "%s: exact matching content was refused: %v", what, errs[i])
			}
		}
		if errors.Is(errs[i], errdef.ErrAlreadyExists) && st != nil && d.Digest.Validate() == nil {
			// nothing is ever deleted here: content reported as already existing is there afterwards
			if ex, err := st.Exists(ctx, d); err == nil && !ex {
				return violation("accepted-content-missing", "", "%s: Push answered already-exists but Exists is false after all pushes returned", what)
			}
			info.Probes["push_answered_already_exists"]++
		}
	}
	// visibility: a descriptor is visible only if some pusher delivered valid content for it
	for i := range pp.Pushers {
		d := descs[i]
		anyValid, anyOK := false, false
		var expected []byte
		for k := range pp.Pushers {
			same := sameContent(descs[k], d)
			if pp.Target == "file-named" {
				same = k == i
				if pp.SameName {
					same = descs[k].Digest == d.Digest // one name: the store tells contents apart by digest only
				}
			}
			if pp.Target != "memory" && pp.Target != "limited" && pp.Target != "file-fallback" && pp.Target != "file-named" && descs[k].Digest == d.Digest {
				same = true // the OCI layout keys by digest
			}
			if same && judge[k].valid {
				anyValid = true
				expected = judge[k].expected
			}
			if same && errs[k] == nil {
				anyOK = true
			}
		}
		if pp.Target == "readall" || pp.Target == "verifyreader" || pp.Target == "proxy" {
			continue
		}
		ex, err := st.Exists(ctx, d)
		if err != nil {
			ex = false
		}
		if ex && !anyValid {
			return violation("bad-content-visible", "", "pusher %d: Exists is true for %s size=%d although no push delivered matching content", i, d.Digest, d.Size)
		}
		if ex {
			b, err := content.FetchAll(ctx, st, d)
			if err == nil && !bytes.Equal(b, expected) {
				return violation("bad-content-visible", "", "pusher %d: Fetch returns bytes that are not the descriptor's content", i)
			}
			if err != nil && judge[i].valid && errs[i] == nil {
				return violation("pushed-content-unreadable", "", "pusher %d: content was accepted but FetchAll fails: %v", i, err)
			}
		} else {
			if anyOK && anyValid {
				return violation("accepted-content-missing", "", "pusher %d: a push of %s returned nil but Exists is false", i, d.Digest)
			}
			if _, err := st.Fetch(ctx, d); err == nil && !anyValid {
				return violation("bad-content-visible", "", "pusher %d: Fetch succeeds for a descriptor no valid content was pushed for", i)
			}
		}
	}
	if isOCI {
		// no file under blobs/ beyond valid pushes
		want := map[string]bool{}
		for i := range pp.Pushers {
			if judge[i].valid {
				want[descs[i].Digest.Algorithm().String()+":"+descs[i].Digest.Encoded()] = true
			}
		}
		for name := range listBlobs(dir) {
			if !want[name] {
				return violation("bad-content-visible", "", "blobs/ contains %s which no valid push produced", name)
			}
		}
		if ents, _ := os.ReadDir(filepath.Join(dir, "ingest")); len(ents) > 0 {
			info.Probes["ingest_leftovers"] += len(ents)
		}
	}
	if isOCI && strings.Count(outcome, "S") >= 2 {
		seenD := map[string]bool{}
		for i := range pp.Pushers {
			if errs[i] == nil {
				if seenD[descs[i].Digest.String()] {
					info.Probes["two_pushes_of_one_blob_both_succeeded"]++
				}
				seenD[descs[i].Digest.String()] = true
			}
		}
	}
	info.StateHash = strHash(pp.Target + outcome)
	info.CaseHash = simrt.Mix(info.CaseHash, info.StateHash)
	info.Sample = map[string]any{"target": pp.Target, "pushers": pp.Pushers, "outcome": outcome}
	return nil
}
