package harness

import (
	"context"
	"encoding/json"
	"fmt"
	"os"
	"path/filepath"
	"strings"

	"github.com/opencontainers/go-digest"
	ocispec "github.com/opencontainers/image-spec/specs-go/v1"
	"oras.land/oras-go/v2/content/oci"
	"oras.land/oras-go/v2/zsim/simos"
	"oras.land/oras-go/v2/zsim/simrt"
)

// CrashParams: a history of completed operations, then a victim operation that
// is interrupted before each of its mutating disk operations in turn (C10).
type CrashParams struct {
	Graph   GraphSpec `json:"graph"`
	History []SOp     `json:"history"`
	Victim  SOp       `json:"victim"`
	AutoGC  bool      `json:"auto_gc,omitempty"`
	OnlyK   int       `json:"only_k,omitempty"` // replay: crash points up to this one (0 = all)
	// Victim2: a second operation, issued by another task at the same time as Victim; the crash
	// falls before the PairKs[i]-th (modulo) mutating disk operation of the two together
	Victim2 *SOp     `json:"victim2,omitempty"`
	PairKs  []uint64 `json:"pair_ks,omitempty"`
}

type crashProp struct{}

func init() { register(&crashProp{}) }

func (p *crashProp) ID() string { return "C10" }

func (p *crashProp) Rule() string {
	return "scenario = sampled history of completed operations on an OCI layout + one victim operation (Push blob/manifest, Tag, Untag, Delete with/without AutoGC, SaveIndex, GC); the victim's mutating disk operations are counted in a fault-free run (N) and the scenario is re-executed once per k in 1..N with the disk frozen before the k-th one (complete enumeration per victim); 30% of the scenarios have two victims issued by two tasks at the same time: the states after neither, either and both (in both orders) are computed by sequential executions, the pair is run without crash and with the disk frozen before 4 drawn mutating operations, each under its own interleaving, and what a new process finds must be one of those states that contains every victim that had returned successfully; evaluations = crash executions; non-trivial = the frozen state differs from both the state before and after the victim, or k>1; distinct = distinct (victim kind, k, on-disk state hash)"
}

func (p *crashProp) Components() map[string][]string {
	return map[string][]string{
		"real":        {"content/oci Store and Storage (real tmpfs I/O through the os shim)", "internal/graph", "internal/resolver"},
		"substituted": {"os: pass-through with operation counting; crash = every operation from the k-th mutating one on fails without effect"},
		"stub":        {},
	}
}

func (p *crashProp) Assumptions() []string {
	return []string{
		"crash model of the statement: process death at system-call boundaries; a prefix of the completed operations survives; no power-loss reordering and no torn single write",
		"os.WriteFile is decomposed into open(O_TRUNC)+write+close, MkdirAll into one mkdir per component, file copies into 32 KiB writes, as the standard library performs them",
		"after the freeze the process is considered dead: error-path clean-up the code attempts has no effect on the disk",
	}
}

func (p *crashProp) Gen(r *Rand, tier string, idx int) any {
	cp := &CrashParams{AutoGC: r.Bool()}
	cp.Graph = *GenGraph(r, GraphOpts{MaxNodes: 9, Referrers: true, OneDigest: true, NoTwins: true})
	g := cp.Graph.Build()
	nn := len(g.Nodes)
	nh := r.Range(2, 12)
	pushed := 0
	for len(cp.History) < nh {
		switch x := r.Intn(10); {
		case x < 5 && pushed < nn:
			cp.History = append(cp.History, SOp{Op: "push", Node: pushed})
			pushed++
		case x < 8:
			cp.History = append(cp.History, SOp{Op: "tag", Node: r.Intn(nn), Ref: pick(r, refUniverse)})
		case x == 8:
			cp.History = append(cp.History, SOp{Op: "untag", Ref: pick(r, refUniverse)})
		default:
			cp.History = append(cp.History, SOp{Op: "delete", Node: r.Intn(nn)})
		}
	}
	switch r.Intn(8) {
	case 0, 1:
		cp.Victim = SOp{Op: "push", Node: r.Intn(nn)}
	case 2, 3:
		cp.Victim = SOp{Op: "tag", Node: r.Intn(nn), Ref: pick(r, refUniverse)}
	case 4:
		cp.Victim = SOp{Op: "untag", Ref: pick(r, refUniverse)}
	case 5:
		cp.Victim = SOp{Op: "delete", Node: r.Intn(nn)}
	case 6:
		cp.Victim = SOp{Op: "saveindex"}
	default:
		cp.Victim = SOp{Op: "gc"}
	}
	if r.Chance(0.3) {
		var v SOp
		switch r.Intn(8) {
		case 0, 1:
			v = SOp{Op: "push", Node: r.Intn(nn)}
		case 2, 3, 4:
			v = SOp{Op: "tag", Node: r.Intn(nn), Ref: pick(r, refUniverse)}
		case 5:
			v = SOp{Op: "untag", Ref: pick(r, refUniverse)}
		case 6:
			v = SOp{Op: "delete", Node: r.Intn(nn)}
		default:
			v = SOp{Op: "gc"}
		}
		cp.Victim2 = &v
		for i := 0; i < 4; i++ {
			cp.PairKs = append(cp.PairKs, r.U64())
		}
	}
	return cp
}

func (p *crashProp) Shrink(raw json.RawMessage) []json.RawMessage {
	var cp CrashParams
	if json.Unmarshal(raw, &cp) != nil {
		return nil
	}
	var out []json.RawMessage
	for i := len(cp.History) - 1; i >= 0; i-- {
		c := cp
		c.History = append(append([]SOp{}, cp.History[:i]...), cp.History[i+1:]...)
		b, _ := json.Marshal(c)
		out = append(out, b)
	}
	return out
}

type tagState struct {
	Tags    []string
	Resolve map[string]string
	Exists  map[int]bool
}

func observeTags(dir string, g *Graph) (*tagState, error) {
	s, err := oci.New(dir)
	if err != nil {
		return nil, err
	}
	snap := takeSnapshot(s, g, true, false)
	return &tagState{Tags: snap.Tags, Resolve: snap.Resolve, Exists: snap.Exists}, nil
}

func sameTags(a, b *tagState) bool {
	if strings.Join(a.Tags, ",") != strings.Join(b.Tags, ",") {
		return false
	}
	for _, r := range refUniverse {
		if a.Resolve[r] != b.Resolve[r] {
			return false
		}
	}
	return true
}

// indexEntriesMissing: every index entry must name an existing blob.
func indexEntriesMissing(dir string) string {
	b, err := os.ReadFile(filepath.Join(dir, "index.json"))
	if err != nil {
		return "index.json unreadable: " + err.Error()
	}
	var idx ocispec.Index
	if err := json.Unmarshal(b, &idx); err != nil {
		return fmt.Sprintf("index.json does not parse (%d bytes): %v", len(b), err)
	}
	for _, m := range idx.Manifests {
		if _, err := os.Stat(filepath.Join(dir, "blobs", m.Digest.Algorithm().String(), m.Digest.Encoded())); err != nil {
			return fmt.Sprintf("index entry %s (ref %q) names a missing blob", m.Digest.Encoded()[:12], m.Annotations[ocispec.AnnotationRefName])
		}
	}
	return ""
}

func dirStateHash(dir string) uint64 {
	var sb strings.Builder
	filepath.Walk(dir, func(p string, fi os.FileInfo, err error) error {
		if err != nil || fi.IsDir() {
			return nil
		}
		rel, _ := filepath.Rel(dir, p)
		if strings.HasPrefix(rel, "ingest") {
			return nil
		}
		b, _ := os.ReadFile(p)
		fmt.Fprintf(&sb, "%s:%s;", rel, digest.FromBytes(b).Encoded()[:16])
		return nil
	})
	return strHash(sb.String())
}

func (p *crashProp) Run(rc *RunCtx, sc *Scenario) *RunInfo {
	info := newInfo()
	var cp CrashParams
	if err := json.Unmarshal(sc.Params, &cp); err != nil {
		info.V = violation("harness", "", "bad params: %v", err)
		return info
	}
	g := cp.Graph.Build()
	ctx := context.Background()
	hashes := map[uint64]bool{}
	if cp.Victim2 != nil {
		return p.runPair(rc, sc, &cp, g, info)
	}

	// one execution: history, then the victim with the disk frozen before its k-th mutating op (k=0: never)
	run := func(dir string, k int) (res simrt.Result, n int, before *tagState, verr string) {
		rc.Bubble(func() {
			s, err := oci.New(dir)
			if err != nil {
				verr = "setup: " + err.Error()
				return
			}
			s.AutoGC = cp.AutoGC
			simos.Reset(simos.Config{Budget: 200000})
			defer simos.Disable()
			res = simrt.Run(rc.NextConfig(), func() {
				for _, op := range cp.History {
					execOp(ctx, s, g, op) // results of the history are not judged here (C06/C09 do that)
				}
				simrt.Observe(func() {
					// the state before the victim, as a fresh process would see it
					before, err = observeTags(dir, g)
					if err != nil {
						verr = "layout unreadable before the victim ran: " + err.Error()
					}
				})
				m0 := simos.MutCount()
				if k > 0 {
					simos.SetCrashAtMut(k)
				}
				execOp(ctx, s, g, cp.Victim)
				n = simos.MutCount() - m0
			})
			rc.Done(res)
		})
		return
	}

	base := filepath.Join(rc.DiskDir, "k0")
	res0, n, before, verr := run(base, 0)
	info.absorb(res0)
	info.Outcome = string(res0.Outcome)
	if res0.Outcome != simrt.OK {
		// not this property's business (C09 reports endless loops); skip
		info.Outcome = "skip-" + string(res0.Outcome)
		return info
	}
	if verr != "" {
		info.Outcome = "setup-skip"
		return info
	}
	after, err := observeTags(base, g)
	if err != nil {
		info.V = violation("unreadable-without-crash", "", "layout cannot be reopened after a fault-free run: %v", err)
		return info
	}
	info.Probes["victim_"+cp.Victim.Op]++
	info.Probes["crash_points"] += n
	evals := 0
	for k := 1; k <= n; k++ {
		if cp.OnlyK != 0 && k > cp.OnlyK {
			// a replay stops after the crash point that failed; the earlier ones are executed
			// again so that every execution meets the same stretch of the decision tape
			break
		}
		dir := filepath.Join(rc.DiskDir, fmt.Sprintf("k%d", k))
		resk, _, beforeK, verr := run(dir, k)
		evals++
		info.Steps += resk.Steps
		info.Faults["crash"]++
		for k2, c2 := range simos.Snapshot().Fired {
			if strings.HasPrefix(k2, "crash-before-") {
				info.Probes[k2] += c2
			}
		}
		if verr != "" || resk.Outcome != simrt.OK {
			info.V = violation("harness", "", "crash run k=%d did not complete: %s %s", k, resk.Outcome, verr)
			return info
		}
		if !sameTags(before, beforeK) {
			info.V = violation("harness", "", "history is not reproducible across executions")
			return info
		}
		fail := func(class, sig, format string, a ...any) *RunInfo {
			st := simos.Snapshot()
			_ = st
			cp2 := cp
			cp2.OnlyK = k
			sc.Params, _ = json.Marshal(cp2)
			info.V = violation(class, sig, "victim %s interrupted before its mutating disk operation %d of %d: %s\nhistory: %v", cp.Victim, k, n, fmt.Sprintf(format, a...), opsString(cp.History))
			return info
		}
		// the process is dead; a new one opens the directory
		if d := checkLayoutBlobsOnly(dir, true); d != "" {
			return fail("corrupt-blob", "", "%s", d)
		}
		got, err := observeTags(dir, g)
		if err != nil {
			sig := ""
			if strings.Contains(err.Error(), "failed to decode index file") {
				sig = "index-json-truncated-by-in-place-write"
			}
			return fail("cannot-reopen", sig, "oci.New fails: %v", err)
		}
		if d := indexEntriesMissing(dir); d != "" {
			return fail("index-names-missing-blob", "", "%s", d)
		}
		if !sameTags(got, before) && !sameTags(got, after) {
			return fail("tags-half-updated", "", "tag mapping after the crash is neither the one before nor the one after the operation: got tags=%v resolve=%v; before tags=%v resolve=%v; after tags=%v resolve=%v", got.Tags, got.Resolve, before.Tags, before.Resolve, after.Tags, after.Resolve)
		}
		for i, e := range before.Exists {
			if e && after.Exists[i] && !got.Exists[i] {
				return fail("lost-content", "", "node n%d existed before and after the operation but is gone after the crash", i)
			}
		}
		h := simrt.Mix(strHash(cp.Victim.Op), simrt.Mix(uint64(k), dirStateHash(dir)))
		if !hashes[h] {
			hashes[h] = true
		}
		if k > 1 {
			info.Nontrivial = true
		}
	}
	info.Probes["crash_executions"] += evals
	info.Evals = evals + 1
	for h := range hashes {
		info.MoreHashes = append(info.MoreHashes, h)
	}
	info.StateHash = dirStateHash(base)
	info.CaseHash = simrt.Mix(info.CaseHash, simrt.Mix(info.StateHash, uint64(n)))
	info.Sample = map[string]any{"history": opsString(cp.History), "victim": cp.Victim.String(), "crash_points": n, "auto_gc": cp.AutoGC}
	return info
}

// checkLayoutBlobsOnly: every file under blobs/ hashes to its name.
func checkLayoutBlobsOnly(dir string, namesToo bool) string {
	algs, _ := os.ReadDir(filepath.Join(dir, "blobs"))
	for _, a := range algs {
		files, _ := os.ReadDir(filepath.Join(dir, "blobs", a.Name()))
		for _, f := range files {
			data, err := os.ReadFile(filepath.Join(dir, "blobs", a.Name(), f.Name()))
			if err != nil {
				return "blob unreadable: " + f.Name()
			}
			d := digest.NewDigestFromEncoded(digest.Algorithm(a.Name()), f.Name())
			if d.Validate() != nil {
				if !namesToo {
					continue
				}
				// the crash scenarios plant no files of their own under blobs/
				return fmt.Sprintf("file blobs/%s/%s is not named after a digest (%d bytes)", a.Name(), f.Name(), len(data))
			}
			if digest.Algorithm(a.Name()).FromBytes(data) != d {
				return fmt.Sprintf("blob file %s/%s is incomplete or does not match its name (%d bytes)", a.Name(), f.Name()[:12], len(data))
			}
		}
	}
	return ""
}

// runPair: two operations in flight when the process dies. What a new process finds must be
// the state before both, or after either, or after both in one of the two orders - and it must
// include every operation that had returned before the crash.
func (p *crashProp) runPair(rc *RunCtx, sc *Scenario, cp *CrashParams, g *Graph, info *RunInfo) *RunInfo {
	ctx := context.Background()
	A, B := cp.Victim, *cp.Victim2
	// states a sequential process reaches, each observed by a fresh process
	seq := func(name string, ops ...SOp) (st *tagState, verr string) {
		dir := filepath.Join(rc.DiskDir, name)
		var res simrt.Result
		rc.Bubble(func() {
			s, err := oci.New(dir)
			if err != nil {
				verr = "setup: " + err.Error()
				return
			}
			s.AutoGC = cp.AutoGC
			simos.Reset(simos.Config{Budget: 200000})
			defer simos.Disable()
			res = simrt.Run(rc.NextConfig(), func() {
				for _, op := range cp.History {
					execOp(ctx, s, g, op)
				}
				for _, op := range ops {
					execOp(ctx, s, g, op)
				}
			})
			rc.Done(res)
		})
		if verr == "" && res.Outcome != simrt.OK {
			verr = "outcome " + string(res.Outcome)
		}
		if verr != "" {
			return nil, verr
		}
		st, err := observeTags(dir, g)
		if err != nil {
			return nil, "reopen: " + err.Error()
		}
		return st, ""
	}
	names := []string{"before both", "after " + A.String(), "after " + B.String(), "after " + A.String() + " then " + B.String(), "after " + B.String() + " then " + A.String()}
	var states []*tagState
	for i, ops := range [][]SOp{nil, {A}, {B}, {A, B}, {B, A}} {
		st, verr := seq(fmt.Sprintf("s%d", i), ops...)
		if verr != "" {
			info.Outcome = "setup-skip" // endless loops and unreadable layouts without a crash are C09's and C08's subject
			return info
		}
		states = append(states, st)
	}
	// the two operations at the same time, the disk frozen before the k-th mutating operation (0: never)
	run := func(dir string, k int) (res simrt.Result, n int, ret [2]bool, before *tagState, verr string) {
		rc.Bubble(func() {
			s, err := oci.New(dir)
			if err != nil {
				verr = "setup: " + err.Error()
				return
			}
			s.AutoGC = cp.AutoGC
			simos.Reset(simos.Config{Budget: 200000})
			defer simos.Disable()
			res = simrt.Run(rc.NextConfig(), func() {
				for _, op := range cp.History {
					execOp(ctx, s, g, op)
				}
				simrt.Observe(func() {
					before, err = observeTags(dir, g)
					if err != nil {
						verr = "layout unreadable before the victims ran: " + err.Error()
					}
				})
				m0 := simos.MutCount()
				if k > 0 {
					simos.SetCrashAtMut(k)
				}
				done := make(chan struct{}, 2)
				for i, op := range []SOp{A, B} {
					i, op := i, op
					simrt.Go(func() {
						defer func() { done <- struct{}{} }()
						r := execOp(ctx, s, g, op)
						// returned while the process was alive, and reported an effect: an operation that was
						// refused (Untag of a name the other one has just removed from memory, say) promises none
						ret[i] = !simos.Snapshot().Frozen && r.Err == ""
					})
				}
				for i := 0; i < 2; i++ {
					<-done
					simrt.Yield("join")
				}
				n = simos.MutCount() - m0
			})
			rc.Done(res)
		})
		return
	}
	judge := func(dir string, ret [2]bool, what string) *Verdict {
		if d := checkLayoutBlobsOnly(dir, true); d != "" {
			return violation("corrupt-blob", "", "%s: %s", what, d)
		}
		got, err := observeTags(dir, g)
		if err != nil {
			return violation("cannot-reopen", "", "%s: oci.New fails: %v", what, err)
		}
		if d := indexEntriesMissing(dir); d != "" {
			return violation("index-names-missing-blob", "", "%s: %s", what, d)
		}
		var allowed []int
		switch {
		case ret[0] && ret[1]:
			allowed = []int{3, 4}
		case ret[0]:
			allowed = []int{1, 3, 4}
		case ret[1]:
			allowed = []int{2, 3, 4}
		default:
			allowed = []int{0, 1, 2, 3, 4}
		}
		ok := false
		var lines []string
		for _, a := range allowed {
			if sameTags(got, states[a]) {
				ok = true
			}
			lines = append(lines, fmt.Sprintf("%s: tags=%v resolve=%v", names[a], states[a].Tags, states[a].Resolve))
		}
		if !ok {
			return violation("tags-half-updated", "", "%s (returned before the crash: %s=%v, %s=%v): the tag mapping a new process finds, tags=%v resolve=%v, is none of\n%s", what, A, ret[0], B, ret[1], got.Tags, got.Resolve, strings.Join(lines, "\n"))
		}
		for i := range states[0].Exists {
			everywhere := true
			for _, a := range allowed {
				if !states[a].Exists[i] {
					everywhere = false
				}
			}
			if everywhere && !got.Exists[i] {
				return violation("lost-content", "", "%s (returned before the crash: %s=%v, %s=%v): node n%d exists in every state the two operations can lead to but is gone", what, A, ret[0], B, ret[1], i)
			}
		}
		return nil
	}
	fail := func(j int, v *Verdict) *RunInfo {
		cp2 := *cp
		cp2.OnlyK = j
		sc.Params, _ = json.Marshal(cp2)
		v.Detail += fmt.Sprintf("\nhistory: %v", opsString(cp.History))
		info.V = v
		return info
	}
	base := filepath.Join(rc.DiskDir, "p0")
	res0, n, ret0, before, verr := run(base, 0)
	info.absorb(res0)
	info.Outcome = string(res0.Outcome)
	if res0.Outcome != simrt.OK || verr != "" {
		info.Outcome = "setup-skip"
		return info
	}
	if !sameTags(before, states[0]) {
		info.V = violation("harness", "", "history is not reproducible across executions")
		return info
	}
	if v := judge(base, ret0, "both operations ran to their end side by side, no crash"); v != nil {
		return fail(0, v)
	}
	info.Probes["victim_pair"]++
	info.Probes["victim_"+A.Op]++
	info.Probes["victim_"+B.Op]++
	if res0.Choices >= 3 {
		info.Nontrivial = true
	}
	evals := 0
	hashes := map[uint64]bool{}
	for j, pk := range cp.PairKs {
		if n == 0 || (cp.OnlyK != 0 && j+1 > cp.OnlyK) {
			break
		}
		k := 1 + int(pk%uint64(n))
		dir := filepath.Join(rc.DiskDir, fmt.Sprintf("p%d", j+1))
		resk, _, ret, beforeK, verr := run(dir, k)
		evals++
		info.Steps += resk.Steps
		info.Faults["crash"]++
		if verr != "" || resk.Outcome != simrt.OK {
			info.V = violation("harness", "", "crash run %d (k=%d) did not complete: %s %s", j+1, k, resk.Outcome, verr)
			return info
		}
		if !sameTags(states[0], beforeK) {
			info.V = violation("harness", "", "history is not reproducible across executions")
			return info
		}
		if ret[0] != ret[1] {
			info.Probes["crash_with_one_of_two_operations_returned"]++
		}
		if v := judge(dir, ret, fmt.Sprintf("%s and %s side by side, process dead before mutating disk operation %d of about %d", A, B, k, n)); v != nil {
			return fail(j+1, v)
		}
		hashes[simrt.Mix(strHash(A.Op+"|"+B.Op), simrt.Mix(uint64(k), dirStateHash(dir)))] = true
	}
	info.Probes["crash_executions"] += evals
	info.Evals = evals + 1
	for h := range hashes {
		info.MoreHashes = append(info.MoreHashes, h)
	}
	info.StateHash = dirStateHash(base)
	info.CaseHash = simrt.Mix(info.CaseHash, simrt.Mix(info.StateHash, uint64(n)))
	info.Sample = map[string]any{"history": opsString(cp.History), "victims": A.String() + " || " + B.String(), "mutating_ops": n, "auto_gc": cp.AutoGC}
	return info
}
