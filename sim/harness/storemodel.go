package harness

import (
	"context"
	"crypto/sha256"
	"errors"
	"fmt"
	"io"
	"oras.land/oras-go/v2/internal/descriptor"
	"sort"
	"strings"

	ocispec "github.com/opencontainers/image-spec/specs-go/v1"
	"oras.land/oras-go/v2/content"
	"oras.land/oras-go/v2/content/file"
	"oras.land/oras-go/v2/errdef"
)

// SOp is one operation of a store history.
type SOp struct {
	Op   string `json:"op"` // push fetch exists tag resolve preds untag delete tags gc saveindex reopen
	Node int    `json:"node,omitempty"`
	Ref  string `json:"ref,omitempty"`
	Task int    `json:"task,omitempty"`
	How  string `json:"how,omitempty"`  // reopen: new | fs | tar
	Var  int    `json:"var,omitempty"`  // tag: the descriptor carries the annotation variant=<Var> (0 = plain)
	From string `json:"from,omitempty"` // retag: Tag(Resolve(From), Ref), as promoting a tag does
	// FailMut: the k-th mutating disk operation of this store operation fails with EIO
	// (OCI layout, C08); 0 = no disk fault
	FailMut int `json:"fail_mut,omitempty"`
	// FailOp (C09, GC only): the k-th disk operation of any kind - reads, stats and listings
	// included - fails with EIO
	FailOp int `json:"fail_op,omitempty"`
	// Cancel (push, C06): the context of the call ends while its reader hands over the last bytes;
	// the push may succeed or fail, a failed one must have changed nothing
	Cancel bool `json:"cancel,omitempty"`
}

func (o SOp) String() string {
	switch o.Op {
	case "tag":
		if o.Var > 0 {
			return fmt.Sprintf("tag(n%d#v%d,%q)", o.Node, o.Var, o.Ref)
		}
		return fmt.Sprintf("tag(n%d,%q)", o.Node, o.Ref)
	case "retag":
		return fmt.Sprintf("retag(%q->%q)", o.From, o.Ref)
	case "resolve", "untag":
		return fmt.Sprintf("%s(%q)", o.Op, o.Ref)
	case "gc", "gccancel", "saveindex", "tags":
		return o.Op + "()"
	case "reopen":
		return "reopen(" + o.How + ")"
	}
	return fmt.Sprintf("%s(n%d)", o.Op, o.Node)
}

// SRes is the observable result of an operation, normalised for comparison.
type SRes struct {
	Err  string   `json:"err,omitempty"` // "" | exists | dupname | notfound | missingref | invalidref | other:<text>
	Bool bool     `json:"bool,omitempty"`
	Data string   `json:"data,omitempty"` // sha256 of returned bytes
	Desc string   `json:"desc,omitempty"` // mediaType|digest|size
	List []string `json:"list,omitempty"`
	Msg  string   `json:"-"` // full error text, for diagnostics only
}

func (r SRes) String() string {
	s := fmt.Sprintf("{err=%q bool=%v data=%.12s desc=%s list=%v}", r.Err, r.Bool, r.Data, r.Desc, r.List)
	if r.Msg != "" {
		s += " (" + r.Msg + ")"
	}
	return s
}

func errRes(err error) SRes {
	if err == nil {
		return SRes{}
	}
	return SRes{Err: errClass(err), Msg: err.Error()}
}

func errClass(err error) string {
	switch {
	case err == nil:
		return ""
	case errors.Is(err, errdef.ErrAlreadyExists):
		return "exists"
	case errors.Is(err, file.ErrDuplicateName):
		return "dupname"
	case errors.Is(err, errdef.ErrNotFound):
		return "notfound"
	case errors.Is(err, errdef.ErrMissingReference):
		return "missingref"
	case errors.Is(err, errdef.ErrInvalidReference):
		return "invalidref"
	}
	return "other:" + err.Error()
}

// cancellingReader ends the context of the call it feeds when it reports the end of its content.
type cancellingReader struct {
	r      io.Reader
	cancel context.CancelFunc
}

func (c *cancellingReader) Read(p []byte) (int, error) {
	n, err := c.r.Read(p)
	if err == io.EOF {
		c.cancel()
	}
	return n, err
}

func dataHash(b []byte) string { return fmt.Sprintf("%x", sha256.Sum256(b)) }

// SModel is the reference model: an immutable content map plus a tag map, with
// the OCI layout's index bookkeeping needed to state GC.
type SModel struct {
	g       *Graph
	kind    string // memory | oci | file
	autoGC  bool
	present map[int]bool
	tags    map[string]int
	tagVar  map[string]int // descriptor variant the reference was tagged with
	names   map[string]int // file store: file name -> node that holds it
	indexed map[int]bool   // OCI: has an index entry (tagged or by digest)
	// file store with IgnoreNoName: a push without a file name is accepted and dropped
	ignoreNoName bool
	// set when the history entered the corner the statement of C09 leaves open
	Ambiguous string
}

func NewSModel(g *Graph, kind string, autoGC bool) *SModel {
	return &SModel{g: g, kind: kind, autoGC: autoGC, present: map[int]bool{}, tags: map[string]int{}, tagVar: map[string]int{}, names: map[string]int{}, indexed: map[int]bool{}}
}

func (m *SModel) Clone() *SModel {
	c := &SModel{g: m.g, kind: m.kind, autoGC: m.autoGC, ignoreNoName: m.ignoreNoName, present: map[int]bool{}, tags: map[string]int{}, tagVar: map[string]int{}, names: map[string]int{}, indexed: map[int]bool{}, Ambiguous: m.Ambiguous}
	for k, v := range m.tagVar {
		c.tagVar[k] = v
	}
	for k, v := range m.names {
		c.names[k] = v
	}
	for k, v := range m.present {
		if v {
			c.present[k] = true
		}
	}
	for k, v := range m.tags {
		c.tags[k] = v
	}
	for k, v := range m.indexed {
		if v {
			c.indexed[k] = true
		}
	}
	return c
}

// Key is a canonical rendering of the abstract state.
func (m *SModel) Key() string {
	var sb strings.Builder
	for _, i := range sortedKeys(m.present) {
		fmt.Fprintf(&sb, "p%d,", i)
	}
	var refs []string
	for r := range m.tags {
		refs = append(refs, r)
	}
	sort.Strings(refs)
	for _, r := range refs {
		fmt.Fprintf(&sb, "%q=%d#%d,", r, m.tags[r], m.tagVar[r])
	}
	if m.kind == "oci" {
		for _, i := range sortedKeys(m.indexed) {
			fmt.Fprintf(&sb, "i%d,", i)
		}
	}
	return sb.String()
}

func (m *SModel) isTagged(n int) bool {
	for _, t := range m.tags {
		if t == n {
			return true
		}
	}
	return false
}

func (m *SModel) predsOf(n int) []string {
	var out []string
	for _, p := range m.g.Preds(n, m.present, false) {
		out = append(out, descKey(m.g.Nodes[p].Desc))
	}
	sort.Strings(out)
	return out
}

func (m *SModel) tagList() []string {
	var out []string
	for r := range m.tags {
		out = append(out, r)
	}
	sort.Strings(out)
	return out
}

// Apply executes op on the model and returns the expected result.
func (m *SModel) Apply(op SOp) SRes {
	g := m.g
	n := op.Node
	var node *Node
	if n >= 0 && n < len(g.Nodes) {
		node = g.Nodes[n]
	}
	switch op.Op {
	case "push":
		if m.kind == "file" && node.Spec.Title != "" {
			// a named file: the name is taken by whoever pushed under it first
			if _, taken := m.names[node.Spec.Title]; taken {
				return SRes{Err: "dupname"}
			}
			m.names[node.Spec.Title] = n
		}
		if m.kind == "file" && m.ignoreNoName && node.Spec.Title == "" {
			return SRes{} // documented option: content without a name is skipped, the push reports success
		}
		if m.present[n] {
			return SRes{Err: "exists"}
		}
		m.present[n] = true
		if m.kind == "oci" && node.IsManif {
			m.indexed[n] = true
		}
		return SRes{}
	case "fetch":
		if !m.present[n] {
			return SRes{Err: "notfound"}
		}
		return SRes{Data: dataHash(node.Data)}
	case "exists":
		return SRes{Bool: m.present[n]}
	case "tag":
		if op.Ref == "" && m.kind != "memory" {
			return SRes{Err: "missingref"}
		}
		if !m.present[n] {
			return SRes{Err: "notfound"}
		}
		m.tags[op.Ref] = n
		m.tagVar[op.Ref] = op.Var
		if m.kind == "oci" {
			m.indexed[n] = true
		}
		return SRes{}
	case "retag":
		if op.From == "" && m.kind != "memory" {
			return SRes{Err: "missingref"}
		}
		t, ok := m.tags[op.From]
		if !ok {
			return SRes{Err: "notfound"}
		}
		if op.Ref == "" && m.kind != "memory" {
			return SRes{Err: "missingref"}
		}
		if !m.present[t] {
			return SRes{Err: "notfound"}
		}
		m.tags[op.Ref] = t
		m.tagVar[op.Ref] = m.tagVar[op.From]
		return SRes{}
	case "resolve":
		if op.Ref == "" && m.kind != "memory" {
			return SRes{Err: "missingref"}
		}
		t, ok := m.tags[op.Ref]
		if !ok {
			return SRes{Err: "notfound"}
		}
		return SRes{Desc: modelResolveKey(g.Nodes[t].Desc, m.tagVar[op.Ref])}
	case "preds":
		return SRes{List: m.predsOf(n)}
	case "untag":
		if op.Ref == "" {
			return SRes{Err: "*"}
		}
		if _, ok := m.tags[op.Ref]; !ok {
			// the statement does not say how removing an unknown tag is answered; it must change nothing
			return SRes{Err: "*"}
		}
		delete(m.tags, op.Ref)
		delete(m.tagVar, op.Ref)
		return SRes{}
	case "tags":
		return SRes{List: m.tagList()}
	case "delete":
		if !m.present[n] {
			// likewise for deleting absent content: any answer, no change
			return SRes{Err: "*"}
		}
		m.deleteCascade(n)
		return SRes{}
	case "gc":
		m.gc()
		return SRes{}
	case "gccancel":
		// GC under a context that is already cancelled: whatever it answers, it must leave everything as it was
		return SRes{Err: "*"}
	case "saveindex", "reopen":
		return SRes{}
	}
	panic("unknown op " + op.Op)
}

func (m *SModel) remove(n int) {
	delete(m.present, n)
	delete(m.indexed, n)
	for r, t := range m.tags {
		if t == n {
			delete(m.tags, r)
			delete(m.tagVar, r)
		}
	}
}

// resolveKey renders a resolved descriptor: content identity plus the variant annotation.
func resolveKey(d ocispec.Descriptor) string {
	return descKey(d) + "#" + d.Annotations["variant"]
}

func modelResolveKey(d ocispec.Descriptor, v int) string {
	if v == 0 {
		return descKey(d) + "#"
	}
	d.MediaType = variantMediaType(d, v)
	return descKey(d) + "#" + fmt.Sprint(v)
}

// variantMediaType: variant 3 of a blob's descriptor names it as application/octet-stream, the
// way a descriptor obtained from Resolve by digest does - not as the manifest that links to it does.
func variantMediaType(d ocispec.Descriptor, v int) string {
	if v == 3 && !descriptor.IsManifest(d) {
		return "application/octet-stream"
	}
	return d.MediaType
}

// descVariant is the descriptor a tag operation presents.
func (g *Graph) descVariant(d ocispec.Descriptor, v int) ocispec.Descriptor {
	if v == 0 {
		return d
	}
	// one map per (content, variant) for the life of the graph (= one execution), as a
	// caller who keeps a descriptor around and tags it under several names presents
	key := fmt.Sprintf("%s#%d", d.Digest, v)
	g.varMu.Lock()
	defer g.varMu.Unlock()
	if g.varCache == nil {
		g.varCache = map[string]map[string]string{}
	}
	if c, ok := g.varCache[key]; ok {
		d.Annotations = c
		d.MediaType = variantMediaType(d, v)
		return d
	}
	ann := map[string]string{}
	for k, x := range d.Annotations {
		ann[k] = x
	}
	ann["variant"] = fmt.Sprint(v)
	d.Annotations = ann
	g.varCache[key] = ann
	d.MediaType = variantMediaType(d, v)
	return d
}

// deleteCascade implements the statement of C09 for Delete with AutoGC.
func (m *SModel) deleteCascade(first int) {
	g := m.g
	queue := []int{first}
	for len(queue) > 0 {
		h := queue[0]
		queue = queue[1:]
		if !m.present[h] {
			continue
		}
		m.remove(h)
		if !m.autoGC {
			continue
		}
		hn := g.Nodes[h]
		if hn.IsManif {
			// untagged manifests whose subject was removed
			for _, r := range g.Preds(h, m.present, true) {
				if m.isTagged(r) {
					continue
				}
				// a surviving node may still link to r: the statement's two clauses
				// pull in opposite directions there; left unjudged
				for _, other := range g.Preds(r, m.present, false) {
					if other != h {
						m.Ambiguous = fmt.Sprintf("untagged referrer n%d of removed n%d is still linked from n%d", r, h, other)
					}
				}
				queue = append(queue, r)
			}
		}
		// untagged successors that lost their last predecessor
		for _, c := range hn.Succ {
			c = g.Canon(c)
			if !m.present[c] || m.isTagged(c) {
				continue
			}
			if len(g.Preds(c, m.present, false)) == 0 {
				queue = append(queue, c)
			}
		}
	}
}

// gc implements the statement of C09 for GC.
func (m *SModel) gc() {
	g := m.g
	var roots []int
	for _, t := range m.tags {
		roots = append(roots, t)
	}
	keep := map[int]bool{}
	// reachability runs through stored nodes only: a missing manifest hides what it links to
	var walk func(i int)
	walk = func(i int) {
		i = g.Canon(i)
		if keep[i] || !m.present[i] {
			return
		}
		keep[i] = true
		for _, c := range g.Nodes[i].Succ {
			walk(c)
		}
	}
	reach := func(rs ...int) {
		for _, r := range rs {
			walk(r)
		}
	}
	reach(roots...)
	// nodes that a stored, reachable manifest links to, stored or not
	linked := func(i int) bool {
		for k := range keep {
			for _, c := range g.Nodes[k].Succ {
				if g.Canon(c) == i {
					return true
				}
			}
		}
		return false
	}
	kept := map[int]bool{} // indexed referrers kept
	for changed := true; changed; {
		changed = false
		for _, i := range sortedKeys(m.indexed) {
			if kept[i] || m.isTagged(i) || !m.present[i] || !g.Nodes[i].IsManif {
				continue
			}
			// follow the subject chain
			cur := i
			for {
				s := g.Nodes[cur].Spec.Subject
				k := g.Nodes[cur].Spec.Kind
				if s < 0 || k == "dmanifest" || k == "dlist" || !g.Nodes[cur].IsManif {
					break
				}
				s = g.Canon(s)
				if keep[s] && !g.Nodes[s].IsManif {
					// "a referrer chain ending in a reachable manifest": the subject is reachable
					// but not a manifest; the statement does not say. Left unjudged.
					m.Ambiguous = fmt.Sprintf("indexed referrer n%d has the reachable non-manifest n%d as subject", i, s)
				}
				if keep[s] {
					kept[i] = true
					reach(i)
					changed = true
					break
				}
				if !m.present[s] {
					if linked(s) {
						// linked from a reachable manifest but not stored: unjudged as well
						m.Ambiguous = fmt.Sprintf("subject n%d of indexed referrer n%d is linked from live content but not stored", s, i)
					}
					break
				}
				cur = s
			}
		}
	}
	for i := range m.present {
		if !keep[i] {
			delete(m.present, i)
		}
	}
	// index entries survive for everything that is kept (tagged nodes, kept referrers and the
	// manifests nested under them); entries of collected content go
	for i := range m.indexed {
		if !keep[i] {
			delete(m.indexed, i)
		}
	}
}

// ---------- executing operations on a real store ----------

type storeAPI interface {
	content.ReadOnlyStorage
	content.Resolver
	content.PredecessorFinder
}

func execOp(ctx context.Context, st any, g *Graph, op SOp) SRes {
	var node *Node
	if op.Node >= 0 && op.Node < len(g.Nodes) {
		node = g.Nodes[op.Node]
	}
	switch op.Op {
	case "push":
		if op.Cancel {
			cctx, cancel := context.WithCancel(ctx)
			defer cancel()
			err := st.(content.Pusher).Push(cctx, node.Desc, &cancellingReader{r: strings.NewReader(string(node.Data)), cancel: cancel})
			if err != nil && errClass(err) != "exists" && errClass(err) != "dupname" {
				return SRes{Err: "cancelled"}
			}
			return SRes{Err: errClass(err)}
		}
		err := st.(content.Pusher).Push(ctx, node.Desc, strings.NewReader(string(node.Data)))
		return SRes{Err: errClass(err)}
	case "fetch":
		rc, err := st.(content.Fetcher).Fetch(ctx, node.Desc)
		if err != nil {
			return SRes{Err: errClass(err)}
		}
		defer rc.Close()
		b, err := io.ReadAll(rc)
		if err != nil {
			return SRes{Err: errClass(err)}
		}
		return SRes{Data: dataHash(b)}
	case "exists":
		ok, err := st.(content.ReadOnlyStorage).Exists(ctx, node.Desc)
		return SRes{Err: errClass(err), Bool: ok}
	case "tag":
		return SRes{Err: errClass(st.(content.Tagger).Tag(ctx, g.descVariant(node.Desc, op.Var), op.Ref))}
	case "retag":
		d, err := st.(content.Resolver).Resolve(ctx, op.From)
		if err != nil {
			return SRes{Err: errClass(err)}
		}
		return SRes{Err: errClass(st.(content.Tagger).Tag(ctx, d, op.Ref))}
	case "resolve":
		d, err := st.(content.Resolver).Resolve(ctx, op.Ref)
		if err != nil {
			return SRes{Err: errClass(err)}
		}
		return SRes{Desc: resolveKey(d)}
	case "preds":
		ds, err := st.(content.PredecessorFinder).Predecessors(ctx, node.Desc)
		if err != nil {
			return SRes{Err: errClass(err)}
		}
		var out []string
		for _, d := range ds {
			out = append(out, descKey(d))
		}
		sort.Strings(out)
		return SRes{List: out}
	case "untag":
		return SRes{Err: errClass(st.(content.Untagger).Untag(ctx, op.Ref))}
	case "delete":
		if op.Var == 3 {
			// by the descriptor Resolve(<digest>) returns for a blob (application/octet-stream)
			return errRes(st.(content.Deleter).Delete(ctx, g.descVariant(node.Desc, 3)))
		}
		return errRes(st.(content.Deleter).Delete(ctx, node.Desc))
	case "tags":
		var out []string
		err := st.(interface {
			Tags(ctx context.Context, last string, fn func(tags []string) error) error
		}).Tags(ctx, "", func(tags []string) error {
			out = append(out, tags...)
			return nil
		})
		return SRes{Err: errClass(err), List: out}
	case "gc":
		return errRes(st.(interface {
			GC(ctx context.Context) error
		}).GC(ctx))
	case "gccancel":
		cctx, cancel := context.WithCancel(ctx)
		cancel()
		return errRes(st.(interface {
			GC(ctx context.Context) error
		}).GC(cctx))
	case "saveindex":
		return SRes{Err: errClass(st.(interface{ SaveIndex() error }).SaveIndex())}
	}
	panic("unknown op " + op.Op)
}

// sresEqual compares an expected (a) with an observed (b) result; an expected error "*" stands
// for "refused or ignored, either is fine".
func sresEqual(a, b SRes) bool {
	if a.Err == "*" {
		return true
	}
	if a.Err != b.Err || a.Bool != b.Bool || a.Data != b.Data || a.Desc != b.Desc || len(a.List) != len(b.List) {
		return false
	}
	for i := range a.List {
		if a.List[i] != b.List[i] {
			return false
		}
	}
	return true
}

// ---------- observable snapshot ----------

type Snapshot struct {
	Exists  map[int]bool
	Data    map[int]string
	Preds   map[int][]string
	Resolve map[string]string // ref -> desc key or "!err"
	ByDgst  map[int]string    // node -> "digest|size" or "!err"
	Tags    []string
}

var refUniverse = []string{"v1", "v2", "latest", "a/b"}

func takeSnapshot(st storeAPI, g *Graph, withTags bool, withDigest bool) *Snapshot {
	ctx := context.Background()
	s := &Snapshot{Exists: map[int]bool{}, Data: map[int]string{}, Preds: map[int][]string{}, Resolve: map[string]string{}, ByDgst: map[int]string{}}
	for _, n := range g.Nodes {
		if g.Canon(n.ID) != n.ID {
			continue
		}
		ok, err := st.Exists(ctx, n.Desc)
		s.Exists[n.ID] = ok && err == nil
		if ok {
			b, err := content.FetchAll(ctx, st, n.Desc)
			if err != nil {
				s.Data[n.ID] = "!" + errClass(err)
			} else {
				s.Data[n.ID] = dataHash(b)
			}
		}
		r := execOp(ctx, st, g, SOp{Op: "preds", Node: n.ID})
		if r.Err != "" {
			s.Preds[n.ID] = []string{"!" + r.Err}
		} else {
			s.Preds[n.ID] = r.List
		}
		if withDigest {
			d, err := st.Resolve(ctx, n.Desc.Digest.String())
			if err != nil {
				s.ByDgst[n.ID] = "!" + errClass(err)
			} else {
				s.ByDgst[n.ID] = fmt.Sprintf("%s|%s|%d", d.MediaType, d.Digest, d.Size)
			}
		}
	}
	for _, ref := range refUniverse {
		d, err := st.Resolve(ctx, ref)
		if err != nil {
			s.Resolve[ref] = "!" + errClass(err)
		} else {
			s.Resolve[ref] = resolveKey(d)
		}
	}
	if withTags {
		r := execOp(ctx, st, g, SOp{Op: "tags"})
		s.Tags = r.List
		if r.Err != "" {
			s.Tags = []string{"!" + r.Err}
		}
	}
	return s
}

func modelSnapshot(m *SModel) *Snapshot {
	g := m.g
	s := &Snapshot{Exists: map[int]bool{}, Data: map[int]string{}, Preds: map[int][]string{}, Resolve: map[string]string{}, ByDgst: map[int]string{}}
	for _, n := range g.Nodes {
		if g.Canon(n.ID) != n.ID {
			continue
		}
		s.Exists[n.ID] = m.present[n.ID]
		if m.present[n.ID] {
			s.Data[n.ID] = dataHash(n.Data)
		}
		s.Preds[n.ID] = m.predsOf(n.ID)
	}
	for _, ref := range refUniverse {
		if t, ok := m.tags[ref]; ok {
			s.Resolve[ref] = modelResolveKey(g.Nodes[t].Desc, m.tagVar[ref])
		} else {
			s.Resolve[ref] = "!notfound"
		}
	}
	s.Tags = m.tagList()
	// tags outside the universe (the empty reference in the memory store) are not listed by the snapshot
	var tl []string
	for _, t := range s.Tags {
		if t != "" {
			tl = append(tl, t)
		}
	}
	s.Tags = tl
	return s
}

// diffSnapshots reports the first difference between two snapshots.
func diffSnapshots(a, b *Snapshot, an, bn string, g *Graph, compareTags, compareDigest bool) string {
	for _, n := range g.Nodes {
		i := n.ID
		if g.Canon(i) != i {
			continue
		}
		if a.Exists[i] != b.Exists[i] {
			return fmt.Sprintf("Exists(n%d): %s=%v %s=%v", i, an, a.Exists[i], bn, b.Exists[i])
		}
		if a.Data[i] != b.Data[i] {
			return fmt.Sprintf("Fetch(n%d): %s=%.12s %s=%.12s", i, an, a.Data[i], bn, b.Data[i])
		}
		if strings.Join(a.Preds[i], ",") != strings.Join(b.Preds[i], ",") {
			return fmt.Sprintf("Predecessors(n%d): %s=%v %s=%v", i, an, shortKeys(g, a.Preds[i]), bn, shortKeys(g, b.Preds[i]))
		}
		if compareDigest && a.ByDgst[i] != b.ByDgst[i] {
			return fmt.Sprintf("Resolve(digest of n%d): %s=%s %s=%s", i, an, a.ByDgst[i], bn, b.ByDgst[i])
		}
	}
	for _, ref := range refUniverse {
		if a.Resolve[ref] != b.Resolve[ref] {
			return fmt.Sprintf("Resolve(%q): %s=%s %s=%s", ref, an, shortKey(g, a.Resolve[ref]), bn, shortKey(g, b.Resolve[ref]))
		}
	}
	if compareTags && strings.Join(a.Tags, ",") != strings.Join(b.Tags, ",") {
		return fmt.Sprintf("Tags(): %s=%v %s=%v", an, a.Tags, bn, b.Tags)
	}
	return ""
}

func shortKey(g *Graph, k string) string {
	base, variant := k, ""
	if i := strings.LastIndex(k, "#"); i >= 0 {
		base, variant = k[:i], k[i:]
		if variant == "#" {
			variant = ""
		}
	}
	for _, n := range g.Nodes {
		if descKey(n.Desc) == base {
			return fmt.Sprintf("n%d%s", n.ID, variant)
		}
	}
	return k
}

func shortKeys(g *Graph, ks []string) []string {
	var out []string
	for _, k := range ks {
		out = append(out, shortKey(g, k))
	}
	return out
}

var _ = ocispec.Descriptor{}
