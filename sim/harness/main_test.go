package harness

import "testing"

func TestSim(t *testing.T) { Main(t) }
