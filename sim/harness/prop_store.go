package harness

import (
	"archive/tar"
	"context"
	"encoding/json"
	"fmt"
	"io"
	"io/fs"
	"os"
	"path/filepath"
	"sort"
	"strconv"
	"strings"
	"sync"
	"syscall"
	"time"

	"github.com/anishathalye/porcupine"
	"github.com/opencontainers/go-digest"
	ocispec "github.com/opencontainers/image-spec/specs-go/v1"
	"oras.land/oras-go/v2/content"
	"oras.land/oras-go/v2/content/file"
	"oras.land/oras-go/v2/content/memory"
	"oras.land/oras-go/v2/content/oci"
	"oras.land/oras-go/v2/zsim/simos"
	"oras.land/oras-go/v2/zsim/simrt"
)

// StoreParams describes one store-history scenario (C06-C09).
type StoreParams struct {
	Graph GraphSpec `json:"graph"`
	Kind  string    `json:"kind"` // memory | oci | file
	Ops   []SOp     `json:"ops"`
	Tasks int       `json:"tasks"` // 1 = sequential
	// Epilogue: operations issued one after the other once the concurrent tasks have all
	// returned (deletes whose cascade depends on the bookkeeping the concurrent part left)
	Epilogue []SOp `json:"epilogue,omitempty"`
	// Prologue: operations issued one after the other before the concurrent tasks start
	Prologue []SOp `json:"prologue,omitempty"`
	AutoGC   bool  `json:"auto_gc,omitempty"`
	AutoSave bool  `json:"auto_save,omitempty"`
	Stray    int   `json:"stray,omitempty"` // unreferenced but valid blob files planted in blobs/
	// ConcGC: GC operations of Ops run inside the concurrent part (otherwise they are left out there)
	ConcGC bool `json:"conc_gc,omitempty"`
	// file store options
	ForceCAS     bool `json:"force_cas,omitempty"`
	IgnoreNoName bool `json:"ignore_no_name,omitempty"`
}

type storeProp struct{ id string }

func init() {
	register(&storeProp{"C06"})
	register(&storeProp{"C07"})
	register(&storeProp{"C08"})
	register(&storeProp{"C09"})
}

func (p *storeProp) ID() string { return p.id }

func (p *storeProp) Rule() string {
	switch p.id {
	case "C06":
		return "scenario = operation history (5-40 ops) over a universe of <=10 nodes and 4 references on one store kind, on one store kind (OCI layouts with AutoGC in a quarter of the scenarios), sequential (step-by-step equality with the reference model plus full observable-state comparison after every step) or split over 2-4 tasks under a seeded schedule (porcupine check of the recorded history plus read-back against the model); non-trivial = at least one state-changing operation succeeded and one was refused, or >=2 tasks interleaved; distinct = distinct (event-trace hash, final model state)"
	case "C07":
		return "scenario = DAG pushed in a drawn order (sequential or from 2-4 tasks), then deletes/GC/reopen; after every step Predecessors of every universe node is compared with ground truth restricted to stored parents; non-trivial = some node had >=1 predecessor at some step; distinct = distinct (event-trace hash, final state)"
	case "C08":
		return "scenario = history of Push/Tag/Untag/Delete/GC/SaveIndex on an OCI layout, with reopen (New, NewFromFS, NewFromTar) at drawn quiescent points and at the end; non-trivial = the layout held >=1 tag and >=2 blobs at a reopen; distinct = distinct (event-trace hash, final state)"
	default:
		return "scenario = history over an OCI layout with referrer chains, moved tags, tagged referrers, stray blob files, Delete of any descriptor (AutoGC on/off) and GC at any point, compared after every step with an executable garbage-collection model; a quarter of the GC calls meet one failing disk operation of any kind (reads, listings, writes), after which everything reachable must still be there and the repeated call is judged like any GC; 10% are two tasks moving one tag at the same time, 12% run GC beside tasks that push a manifest with its children and tag it (porcupine check of the history against the same model, orders that pass a corner the statement leaves open are not judged); non-trivial = a Delete or GC removed at least one node beyond the named one, or GC ran with garbage present; distinct = distinct (event-trace hash, final state)"
	}
}

func (p *storeProp) Components() map[string][]string {
	return map[string][]string{
		"real":        {"content/memory", "content/oci (Store, Storage, ReadOnlyStore; real tmpfs I/O)", "content/file", "internal/graph", "internal/resolver", "internal/cas", "internal/fs/tarfs"},
		"substituted": {"sync primitives (scheduler-controlled)", "os (pass-through to tmpfs, counted; budget turns an endless loop into a deterministic outcome; the k-th mutating operation can fail with EIO)", "map iteration order (canonical or tape-shuffled)"},
		"stub":        {"reference model (content map + tag map + index bookkeeping) in the harness"},
	}
}

func (p *storeProp) Assumptions() []string {
	return []string{
		"universe has one node per digest (no identical bytes under two media types) because the OCI layout and file store key content by digest",
		"references are plain tags, never a node's digest string (except the explicit Resolve-by-digest comparison of C08)",
		"file-store names are clean relative paths; several blobs may claim one name (the store must then refuse all but one)",
		"after an injected disk error (C08) only the validity of the layout on disk is judged, not the agreement of the live and a reopened store",
		"porcupine Unknown (timeout) is inconclusive and never reported",
	}
}

var storeRefs = refUniverse

// genTagRace: a tag that sits on one manifest is moved to two others at the same time, by
// two tasks; afterwards the subject of those two is deleted with AutoGC. Whichever of the
// two lost the tag is an untagged referrer then and has to go, the other one stays.
func (p *storeProp) genTagRace(r *Rand) *StoreParams {
	sp := &StoreParams{Kind: "oci", Tasks: 2, AutoGC: true, AutoSave: true}
	sp.Graph = *GenGraph(r, GraphOpts{MaxNodes: 12, Referrers: true, OneDigest: true, NoTwins: true, Fanout: true})
	g := sp.Graph.Build()
	refs := map[int][]int{}
	for _, n := range g.Nodes {
		if n.IsManif && n.Spec.Subject >= 0 && g.Nodes[n.Spec.Subject].IsManif {
			refs[n.Spec.Subject] = append(refs[n.Spec.Subject], n.ID)
		}
	}
	for s := 0; s < len(g.Nodes); s++ {
		rs := refs[s]
		if len(rs) < 2 {
			continue
		}
		b, c := rs[0], rs[1]
		a := s
		for _, n := range g.Nodes {
			if n.IsManif && n.ID != b && n.ID != c && n.ID != s && r.Bool() {
				a = n.ID
			}
		}
		for i := range g.Nodes {
			sp.Prologue = append(sp.Prologue, SOp{Op: "push", Node: i})
		}
		sp.Prologue = append(sp.Prologue, SOp{Op: "tag", Node: a, Ref: "v1"})
		sp.Ops = []SOp{{Op: "tag", Node: b, Ref: "v1", Task: 0}, {Op: "tag", Node: c, Ref: "v1", Task: 1}}
		if r.Bool() {
			sp.Ops = append(sp.Ops, SOp{Op: "resolve", Ref: "v1", Task: r.Intn(2)})
		}
		sp.Epilogue = []SOp{{Op: "delete", Node: s}}
		return sp
	}
	return nil
}

// genGCRace: GC runs while other tasks push a manifest with its children and tag it (or move,
// remove and delete tags). GC has to behave as one step among the others: whatever was
// pushed and tagged is complete afterwards, whatever it removed was garbage at that step.
func (p *storeProp) genGCRace(r *Rand) *StoreParams {
	sp := &StoreParams{Kind: "oci", Tasks: r.Range(2, 3), AutoGC: r.Bool(), AutoSave: true, ConcGC: true}
	sp.Graph = *GenGraph(r, GraphOpts{MaxNodes: 12, Referrers: true, OneDigest: true, NoTwins: true, SHA512: true})
	g := sp.Graph.Build()
	var manifs []int
	for _, n := range g.Nodes {
		if n.IsManif {
			manifs = append(manifs, n.ID)
		}
	}
	if len(manifs) == 0 {
		return nil
	}
	sp.Stray = r.Range(0, 4)
	late := map[int]bool{}
	var closure func(n int)
	closure = func(n int) {
		if late[n] {
			return
		}
		late[n] = true
		for _, c := range g.Nodes[n].Succ {
			closure(c)
		}
	}
	targets := []int{pick(r, manifs)}
	if sp.Tasks == 3 {
		targets = append(targets, pick(r, manifs))
	}
	for _, t := range targets {
		closure(t)
	}
	// before: part of the rest is stored, some of it tagged, some of it garbage
	for i := range g.Nodes {
		if !late[i] && r.Chance(0.8) {
			sp.Prologue = append(sp.Prologue, SOp{Op: "push", Node: i})
			if g.Nodes[i].IsManif && r.Chance(0.5) {
				sp.Prologue = append(sp.Prologue, SOp{Op: "tag", Node: i, Ref: pick(r, storeRefs)})
			}
		}
	}
	// some of what is pushed late may be there already (and is garbage or not when GC starts)
	for i := range g.Nodes {
		if late[i] && r.Chance(0.2) {
			sp.Prologue = append(sp.Prologue, SOp{Op: "push", Node: i})
		}
	}
	sp.Ops = append(sp.Ops, SOp{Op: "gc", Task: 0})
	if r.Chance(0.3) {
		sp.Ops = append(sp.Ops, SOp{Op: "gc", Task: 0})
	}
	for ti, t := range targets {
		task := ti + 1
		var order []int
		seen := map[int]bool{}
		var walk func(n int)
		walk = func(n int) {
			if seen[n] {
				return
			}
			seen[n] = true
			for _, c := range g.Nodes[n].Succ {
				walk(c)
			}
			order = append(order, n)
		}
		walk(t)
		if r.Chance(0.3) { // parents first
			for i, j := 0, len(order)-1; i < j; i, j = i+1, j-1 {
				order[i], order[j] = order[j], order[i]
			}
		}
		for _, n := range order {
			sp.Ops = append(sp.Ops, SOp{Op: "push", Node: n, Task: task})
			if n == t && r.Chance(0.5) {
				sp.Ops = append(sp.Ops, SOp{Op: "tag", Node: t, Ref: pick(r, storeRefs), Task: task})
			}
		}
		sp.Ops = append(sp.Ops, SOp{Op: "tag", Node: t, Ref: pick(r, storeRefs), Task: task})
		switch r.Intn(4) {
		case 0:
			sp.Ops = append(sp.Ops, SOp{Op: "untag", Ref: pick(r, storeRefs), Task: task})
		case 1:
			sp.Ops = append(sp.Ops, SOp{Op: "delete", Node: r.Intn(len(g.Nodes)), Task: task})
		}
	}
	if r.Chance(0.4) {
		sp.Epilogue = append(sp.Epilogue, SOp{Op: "gc"})
	}
	return sp
}

// genSaveStorm: after a sequential prologue several tasks issue index-saving operations at the
// same time (Tag, Untag, Push of a manifest); what reaches index.json must be what the live
// store holds - the reopen comparisons after quiescence decide that.
func (p *storeProp) genSaveStorm(r *Rand) *StoreParams {
	sp := &StoreParams{Kind: "oci", Tasks: r.Range(3, 4), AutoGC: r.Bool(), AutoSave: true}
	sp.Graph = *GenGraph(r, GraphOpts{MaxNodes: 10, Referrers: true, OneDigest: true, NoTwins: true})
	g := sp.Graph.Build()
	var manifs []int
	late := map[int]bool{}
	for _, n := range g.Nodes {
		if n.IsManif {
			manifs = append(manifs, n.ID)
		}
	}
	if len(manifs) == 0 {
		return nil
	}
	for _, m := range manifs {
		if r.Chance(0.3) {
			late[m] = true
		}
	}
	for i := range g.Nodes {
		if !late[i] {
			sp.Prologue = append(sp.Prologue, SOp{Op: "push", Node: i})
		}
	}
	if r.Bool() {
		sp.Prologue = append(sp.Prologue, SOp{Op: "tag", Node: pick(r, manifs), Ref: "latest"})
	}
	for t := 0; t < sp.Tasks; t++ {
		for k := r.Range(1, 2); k > 0; k-- {
			switch x := r.Intn(6); {
			case x < 4:
				sp.Ops = append(sp.Ops, SOp{Op: "tag", Node: pick(r, manifs), Ref: pick(r, storeRefs), Task: t})
			case x == 4:
				sp.Ops = append(sp.Ops, SOp{Op: "untag", Ref: pick(r, storeRefs), Task: t})
			default:
				sp.Ops = append(sp.Ops, SOp{Op: "push", Node: pick(r, manifs), Task: t})
			}
		}
	}
	return sp
}

func (p *storeProp) Gen(r *Rand, tier string, idx int) any {
	if p.id == "C08" && r.Chance(0.1) {
		if sp := p.genSaveStorm(r); sp != nil {
			return sp
		}
	}
	if p.id == "C09" && r.Chance(0.1) {
		if sp := p.genTagRace(r); sp != nil {
			return sp
		}
	}
	if (p.id == "C09" && r.Chance(0.12)) || ((p.id == "C07" || p.id == "C08") && r.Chance(0.08)) {
		if sp := p.genGCRace(r); sp != nil {
			return sp
		}
	}
	sp := &StoreParams{}
	switch p.id {
	case "C06":
		sp.Kind = pick(r, []string{"memory", "oci", "file"})
	case "C07":
		sp.Kind = pick(r, []string{"memory", "oci", "oci", "file"})
	default:
		sp.Kind = "oci"
	}
	o := GraphOpts{MaxNodes: 10, Referrers: true, OneDigest: true, NoTwins: true, NoForeign: false, SHA512: true}
	if p.id == "C09" || p.id == "C07" {
		o.MaxNodes = 12
	}
	if tier == "thorough" && r.Chance(0.3) {
		o.MaxNodes += 6
	}
	if sp.Kind == "file" {
		o.Titles = true
		o.AliasNames = true
		sp.ForceCAS = r.Chance(0.3)
		sp.IgnoreNoName = r.Chance(0.2)
	}
	if sp.Kind == "oci" && (p.id == "C09" || p.id == "C08" || p.id == "C07") && r.Chance(0.08) {
		o.Wide, o.MaxNodes = true, 26 // multi-platform indexes: load and GC walk many sibling manifests at once
	}
	sp.Graph = *GenGraph(r, o)
	g := sp.Graph.Build()
	nn := len(g.Nodes)
	sp.Tasks = 1
	if (p.id == "C06" || p.id == "C07") && r.Chance(0.5) {
		sp.Tasks = r.Range(2, 4)
	}
	if p.id == "C08" && r.Chance(0.25) {
		sp.Tasks = r.Range(2, 4) // the layout a concurrent history leaves behind is reopened after quiescence
	}
	sp.AutoSave = true
	if sp.Kind == "oci" {
		switch p.id {
		case "C06":
			sp.AutoGC = r.Chance(0.25) // what Delete takes along then is part of the model (as in C09)
		case "C09":
			sp.AutoGC = r.Chance(0.7)
		default:
			sp.AutoGC = r.Bool()
		}
		if p.id == "C08" && r.Chance(0.3) {
			sp.AutoSave = false
		}
		if p.id == "C09" && r.Chance(0.4) {
			sp.Stray = r.Range(1, 3)
		}
	}
	nops := r.Range(5, 40)
	if tier == "thorough" && r.Chance(0.3) {
		nops = r.Range(30, 70)
	}
	randRef := func() string {
		if p.id == "C06" && r.Chance(0.05) {
			return ""
		}
		return pick(r, storeRefs)
	}
	addOp := func(op SOp) {
		if sp.Tasks > 1 {
			op.Task = r.Intn(sp.Tasks)
		}
		sp.Ops = append(sp.Ops, op)
	}
	// push phase: most nodes, in a drawn order
	order := make([]int, nn)
	for i := range order {
		order[i] = i
	}
	switch r.Intn(3) {
	case 0: // children first (index order)
	case 1: // parents first
		for i, j := 0, nn-1; i < j; i, j = i+1, j-1 {
			order[i], order[j] = order[j], order[i]
		}
	default:
		for i := nn - 1; i > 0; i-- {
			j := r.Intn(i + 1)
			order[i], order[j] = order[j], order[i]
		}
	}
	mutators := []string{"push", "push", "tag", "tag", "tag"}
	readers := []string{"fetch", "exists", "resolve", "preds"}
	if sp.Kind == "oci" {
		mutators = append(mutators, "untag", "delete")
		readers = append(readers, "tags")
		if p.id == "C09" || p.id == "C07" || p.id == "C08" {
			mutators = append(mutators, "delete", "gc")
			if p.id != "C06" && r.Chance(0.5) {
				mutators = append(mutators, "gccancel")
			}
		}
		if p.id == "C08" && !sp.AutoSave {
			mutators = append(mutators, "saveindex")
		}
	}
	pushed := 0
	var taggedNodes []int
	for len(sp.Ops) < nops {
		var op SOp
		if pushed < nn && r.Chance(0.55) {
			op = SOp{Op: "push", Node: order[pushed]}
			pushed++
		} else if r.Chance(0.6) {
			op = SOp{Op: pick(r, mutators), Node: r.Intn(nn), Ref: randRef()}
			if op.Op == "tag" && len(taggedNodes) > 0 && r.Chance(0.2) {
				op.Node = pick(r, taggedNodes) // one more name for content that has one already
			}
			if op.Op == "tag" {
				taggedNodes = append(taggedNodes, op.Node)
			}
			if op.Op == "tag" && r.Chance(0.3) {
				op.Var = r.Range(1, 2) // same content, other descriptor annotations
				if sp.Kind == "oci" && r.Chance(0.3) {
					op.Var = 3 // a blob named as application/octet-stream, as Resolve by digest names it
				}
			} else if op.Op == "tag" && r.Chance(0.2) {
				op = SOp{Op: "retag", From: randRef(), Ref: randRef()} // tag what another tag resolves to
			}
		} else {
			op = SOp{Op: pick(r, readers), Node: r.Intn(nn), Ref: randRef()}
		}
		if sp.Tasks == 1 && p.id == "C06" && op.Op == "push" && r.Chance(0.08) {
			op.Cancel = true
		}
		if sp.Kind == "oci" && op.Op == "delete" && !g.Nodes[op.Node].IsManif && r.Chance(0.15) {
			op.Var = 3
		}
		if sp.Tasks == 1 && sp.Kind == "oci" && sp.AutoSave && p.id == "C07" && op.Op == "push" && r.Chance(0.1) {
			op.FailMut = r.Range(1, 6) // Push only: a Delete that fails halfway is allowed to leave a stored manifest unindexed
		}
		if sp.Tasks == 1 && sp.Kind == "oci" && sp.AutoSave && p.id == "C08" && (op.Op == "push" || op.Op == "tag" || op.Op == "retag" || op.Op == "untag" || op.Op == "delete" || op.Op == "gc" || op.Op == "saveindex") && r.Chance(0.1) {
			op.FailMut = r.Range(1, 4)
		}
		if sp.Tasks == 1 && sp.Kind == "oci" && p.id == "C09" && op.Op == "gc" && r.Chance(0.25) {
			op.FailOp = r.Range(1, 30) // one disk operation inside this GC fails, reads included
		}
		if sp.Tasks == 1 && sp.Kind == "oci" && p.id != "C06" && p.id != "C09" && r.Chance(0.08) {
			op = SOp{Op: "reopen", How: pick(r, []string{"new", "fs", "tar"})}
		}
		if sp.Tasks == 1 && sp.Kind == "oci" && p.id == "C09" && r.Chance(0.03) {
			op = SOp{Op: "reopen", How: "new"}
		}
		addOp(op)
	}
	if sp.Kind == "oci" && sp.Tasks > 1 && sp.AutoGC {
		for k := r.Range(0, 3); k > 0; k-- {
			sp.Epilogue = append(sp.Epilogue, SOp{Op: "delete", Node: r.Intn(nn)})
		}
	}
	if sp.Kind == "oci" && sp.Tasks == 1 && (p.id == "C07" || p.id == "C09") && r.Chance(0.3) {
		sp.Ops = append(sp.Ops, SOp{Op: "gccancel"})
	}
	if sp.Kind == "oci" && sp.Tasks == 1 && (p.id == "C08" || p.id == "C07") {
		if r.Chance(0.4) {
			sp.Ops = append(sp.Ops, SOp{Op: "reopen", How: fmt.Sprintf("fscancel%d", r.Range(1, 9))})
		}
		if r.Chance(0.4) {
			sp.Ops = append(sp.Ops, SOp{Op: "reopen", How: fmt.Sprintf("fsfail%d", r.Range(1, 9))})
		}
		if r.Chance(0.3) {
			sp.Ops = append(sp.Ops, SOp{Op: "reopen", How: "tarstale"})
		}
		for _, how := range []string{"fs", "tar", "external", "new"} {
			sp.Ops = append(sp.Ops, SOp{Op: "reopen", How: how})
		}
	}
	if p.id == "C09" && r.Chance(0.6) {
		last := SOp{Op: "gc"}
		if sp.Tasks == 1 && r.Chance(0.25) {
			last.FailOp = r.Range(1, 30)
		}
		sp.Ops = append(sp.Ops, last)
	}
	return sp
}

func (p *storeProp) Shrink(raw json.RawMessage) []json.RawMessage {
	var sp StoreParams
	if json.Unmarshal(raw, &sp) != nil {
		return nil
	}
	var out []json.RawMessage
	emit := func(c StoreParams) {
		b, _ := json.Marshal(c)
		out = append(out, b)
	}
	// drop chunks of ops, then single ops (from the end)
	for chunk := len(sp.Ops) / 2; chunk >= 1; chunk /= 2 {
		for start := len(sp.Ops) - chunk; start >= 0; start -= chunk {
			c := sp
			c.Ops = append(append([]SOp{}, sp.Ops[:start]...), sp.Ops[start+chunk:]...)
			emit(c)
		}
		if chunk == 1 {
			break
		}
	}
	// drop nodes not used by any op and not needed... (highest first)
	for k := len(sp.Graph.Nodes) - 1; k >= 0; k-- {
		used := false
		for _, o := range sp.Ops {
			if o.Node == k && opUsesNode(o.Op) {
				used = true
			}
		}
		if used {
			continue
		}
		gs, ok := sp.Graph.DropNode(k)
		if !ok {
			continue
		}
		c := sp
		c.Graph = *gs
		c.Ops = nil
		for _, o := range sp.Ops {
			if o.Node > k {
				o.Node--
			}
			c.Ops = append(c.Ops, o)
		}
		emit(c)
	}
	if sp.Tasks > 1 {
		c := sp
		c.Tasks = 1
		c.Ops = nil
		for _, o := range sp.Ops {
			o.Task = 0
			c.Ops = append(c.Ops, o)
		}
		emit(c)
	}
	if sp.Stray > 0 {
		c := sp
		c.Stray = 0
		emit(c)
	}
	return out
}

func opUsesNode(op string) bool {
	switch op {
	case "push", "fetch", "exists", "tag", "preds", "delete":
		return true
	}
	return false
}

// ---------- run ----------

type storeRun struct {
	faulted bool // a disk error was injected into an earlier operation (C07 continues, without reopen comparisons)
	p       *storeProp
	rc      *RunCtx
	sp      *StoreParams
	g       *Graph
	model   *SModel
	store   any
	dir     string
	info    *RunInfo
	closer  func()
	gcRan   bool
	// nodes the store's in-memory predecessor graph holds as nodes (only used to
	// label a known finding, never to decide a verdict)
	graphKnown map[int]bool
}

// relearn recomputes graphKnown the way a load or GC rebuilds the graph: from
// the index entries, through stored manifests.
func (sr *storeRun) relearn() {
	sr.graphKnown = map[int]bool{}
	var walk func(i int)
	walk = func(i int) {
		i = sr.g.Canon(i)
		if sr.graphKnown[i] {
			return
		}
		sr.graphKnown[i] = true
		if sr.model.present[i] {
			for _, c := range sr.g.Nodes[i].Succ {
				walk(c)
			}
		}
	}
	for i := range sr.model.indexed {
		if sr.model.present[i] {
			walk(i)
		}
	}
}

func (sr *storeRun) open() error {
	switch sr.sp.Kind {
	case "memory":
		sr.store = memory.New()
	case "file":
		s, err := file.New(sr.dir)
		if err != nil {
			return err
		}
		s.ForceCAS, s.IgnoreNoName = sr.sp.ForceCAS, sr.sp.IgnoreNoName
		sr.store = s
		sr.closer = func() { s.Close() }
	case "oci":
		s, err := oci.New(sr.dir)
		if err != nil {
			return err
		}
		s.AutoGC = sr.sp.AutoGC
		s.AutoSaveIndex = sr.sp.AutoSave
		sr.store = s
	}
	return nil
}

func (p *storeProp) Run(rc *RunCtx, sc *Scenario) *RunInfo {
	info := newInfo()
	var sp StoreParams
	if err := json.Unmarshal(sc.Params, &sp); err != nil {
		info.V = violation("harness", "", "bad params: %v", err)
		return info
	}
	g := sp.Graph.Build()
	sr := &storeRun{p: p, rc: rc, sp: &sp, g: g, info: info, dir: filepath.Join(rc.DiskDir, "store")}
	var v *Verdict
	leak := rc.Bubble(func() {
		if sp.Tasks <= 1 {
			v = sr.sequential()
		} else {
			v = sr.concurrent()
		}
	})
	if sr.closer != nil {
		sr.closer()
	}
	if leak != "" {
		info.Probes["goroutines_left_blocked"]++
	}
	info.V = v
	info.Sample = map[string]any{"kind": sp.Kind, "tasks": sp.Tasks, "nodes": len(sp.Graph.Nodes), "ops": opsString(sp.Ops), "auto_gc": sp.AutoGC, "auto_save": sp.AutoSave}
	return info
}

func opsString(ops []SOp) []string {
	var out []string
	for _, o := range ops {
		s := o.String()
		if o.Task > 0 {
			s = fmt.Sprintf("t%d:%s", o.Task, s)
		}
		out = append(out, s)
	}
	return out
}

func (sr *storeRun) plantStrays() {
	if sr.sp.Kind != "oci" {
		return
	}
	for i := 0; i < sr.sp.Stray; i++ {
		data := []byte(fmt.Sprintf("stray-%d", i))
		d := digest.FromBytes(data)
		dir := filepath.Join(sr.dir, "blobs", "sha256")
		os.MkdirAll(dir, 0o755)
		os.WriteFile(filepath.Join(dir, d.Encoded()), data, 0o444)
		// and a file that is no blob at all; GC has to leave it alone and carry on. Its
		// name sorts before, between or after the digests.
		os.WriteFile(filepath.Join(dir, strayNames[i%len(strayNames)]), []byte("not a blob"), 0o644)
	}
}

var strayNames = []string{".DS_Store", "8-partial-download", "zz-notes.txt"}

func isStrayName(n string) bool {
	for _, s := range strayNames {
		if s == n {
			return true
		}
	}
	return false
}

func (sr *storeRun) outcome(res simrt.Result) *Verdict {
	sr.info.absorb(res)
	sr.info.Outcome = string(res.Outcome)
	switch res.Outcome {
	case simrt.OK:
		return nil
	case simrt.Panicked:
		return violation("panic", "", "panic: %s\n%s", res.PanicValue, res.PanicStack)
	case simrt.OpBudget:
		return violation("no-termination", "", "an operation performed more than %d disk operations without finishing (last op of the history did not terminate)", diskBudget)
	default:
		return violation("hang", "", "history did not finish: %s (%s)", res.Outcome, res.Detail)
	}
}

const diskBudget = 3000 // disk operations allowed per store operation

// sequential: step-by-step comparison with the model.
func (sr *storeRun) sequential() *Verdict {
	sp, g := sr.sp, sr.g
	if err := sr.open(); err != nil {
		sr.info.Outcome = "setup-skip"
		return nil
	}
	sr.plantStrays()
	sr.model = NewSModel(g, sp.Kind, sp.AutoGC)
	sr.model.ignoreNoName = sp.IgnoreNoName
	sr.graphKnown = map[int]bool{}
	ctx := context.Background()
	var v *Verdict
	step := 0
	var lastOp SOp
	simos.Reset(simos.Config{Budget: diskBudget})
	defer simos.Disable()
	res := simrt.Run(sr.rc.NextConfig(), func() {
		for i, op := range sp.Ops {
			step, lastOp = i, op
			simos.SetBudget(diskBudget)
			if op.Op == "reopen" && sr.faulted {
				continue
			}
			if op.Op == "reopen" {
				if v = sr.reopen(op.How); v != nil {
					return
				}
				continue
			}
			if !sr.supported(op) {
				continue
			}
			if op.Op == "gc" {
				sr.gcRan = true
			}
			if op.Op == "gccancel" {
				// a GC that is cut short may have done part of its work; the statement does not say
				// how far it may get. Where there is nothing to collect, any part of nothing is
				// nothing: only then is a cancelled GC issued, and it must change nothing.
				full := sr.model.Clone()
				full.gc()
				if sr.faulted || full.Key() != sr.model.Key() || sr.blobListingDiff() != "" {
					continue // (after an injected disk error the model no longer tells what the store holds)
				}
				sr.info.Probes["gc_under_cancelled_context"]++
			}
			want := sr.model.Clone()
			exp := want.Apply(op)
			eioBefore := 0
			if op.FailMut > 0 {
				eioBefore = simos.Snapshot().Fired["eio"]
				simos.SetFailAtMut(op.FailMut)
			}
			if op.FailOp > 0 && op.Op == "gc" {
				eioBefore = simos.Snapshot().Fired["eio"]
				simos.SetFailAtOp(op.FailOp)
			}
			got := execOp(ctx, sr.store, g, op)
			sr.rc.Logf("step %d %s -> %s (model %s)", i, op, got, exp)
			if op.FailOp > 0 && op.Op == "gc" {
				simos.SetFailAtOp(0)
				if simos.Snapshot().Fired["eio"] > eioBefore {
					// a disk operation inside GC failed - possibly a read. GC may fail and may have done
					// part of its work; what is reachable must all be there, whatever it answered
					sr.info.Probes["disk_error_inside_gc"]++
					sr.info.Nontrivial = true
					for k, c := range simos.Snapshot().Fired {
						if strings.HasPrefix(k, "eio") {
							sr.info.Faults[k] = c
						}
					}
					var d string
					simrt.Observe(func() {
						snap := takeSnapshot(sr.store.(storeAPI), g, true, false)
						ms := modelSnapshot(want)
						for n, e := range ms.Exists {
							if e && (!snap.Exists[n] || snap.Data[n] != ms.Data[n]) {
								d = fmt.Sprintf("n%d is reachable but gone (or unreadable)", n)
							}
						}
						for ref, k := range ms.Resolve {
							if !strings.HasPrefix(k, "!") && snap.Resolve[ref] != k {
								d = fmt.Sprintf("Resolve(%q): store=%s model=%s", ref, snap.Resolve[ref], k)
							}
						}
					})
					if d != "" {
						v = violation("gc-result-wrong", "", "after step %d %s, in which disk operation %d failed with EIO (result %s): %s\nhistory: %v", i, op, op.FailOp, got, d, opsString(sp.Ops[:i+1]))
						return
					}
					// the same call again, the disk behaving: judged like any GC
					got = execOp(ctx, sr.store, g, op)
				}
			}
			if op.FailMut > 0 {
				simos.SetFailAtMut(0)
				if simos.Snapshot().Fired["eio"] > eioBefore {
					// a disk operation inside this store operation failed. What the live store
					// and a reopened one answer from here on is no longer promised to agree;
					// what is promised is a valid layout on disk at this quiescent point.
					sr.info.Probes["disk_error_inside_operation"]++
					sr.info.Nontrivial = true
					for k, c := range simos.Snapshot().Fired {
						if strings.HasPrefix(k, "eio") {
							sr.info.Faults[k] += c
						}
					}
					var d string
					simrt.Observe(func() { d = checkLayout(sr.dir) })
					if d != "" {
						v = violation("layout-invalid", "", "after step %d %s, in which disk operation %d failed with EIO (result %s): %s\nhistory: %v", i, op, op.FailMut, got, d, opsString(sp.Ops[:i+1]))
						return
					}
					if _, had := sr.model.tags[op.Ref]; had && op.Op == "tag" && got.Err != "" {
						// a Tag that failed may or may not have moved the name; it has no business removing it
						if r := execOp(ctx, sr.store, g, SOp{Op: "resolve", Ref: op.Ref}); r.Err == "notfound" {
							v = violation("tag-lost-by-failed-tag", "", "after step %d %s failed with EIO in disk operation %d (result %s) the name %q, which was set before, resolves to nothing\nhistory: %v", i, op, op.FailMut, got, op.Ref, opsString(sp.Ops[:i+1]))
							return
						}
						sr.info.Probes["name_survives_failed_tag"]++
					}
					if sr.p.id != "C07" {
						// the caller tries the same call again once the disk behaves; whatever it
						// answers now, the layout on disk must be valid afterwards as well
						got2 := execOp(ctx, sr.store, g, op)
						simrt.Observe(func() { d = checkLayout(sr.dir) })
						if d != "" {
							v = violation("layout-invalid", "", "after step %d %s failed with EIO in disk operation %d (result %s) and was repeated (result %s): %s\nhistory: %v", i, op, op.FailMut, got, got2, d, opsString(sp.Ops[:i+1]))
						}
						sr.info.Probes["operation_repeated_after_disk_error"]++
						return
					}
					// C07 goes on: its ground truth is what the store itself holds, so a manifest that
					// a failed Push left in the store must be reported as predecessor like any other.
					// (What the disk holds may now differ from the live store: no more reopen comparisons.)
					sr.faulted = true
				}
			}
			if op.Cancel && got.Err == "cancelled" {
				// the push gave up with its context: nothing may have changed
				want, exp = sr.model.Clone(), got
				sr.info.Probes["push_failed_with_its_context"]++
			} else if op.Cancel {
				sr.info.Probes["push_completed_although_its_context_ended"]++
			}
			useModel := sr.p.id == "C06" || sr.p.id == "C09"
			if useModel && want.Ambiguous != "" {
				sr.info.Probes["unjudged_corner_reached"]++
				sr.info.Outcome = "unjudged"
				return
			}
			sr.countOp(op, got, want)
			if useModel {
				if !sresEqual(exp, got) {
					v = violation(sr.class(op), sr.signature(op, exp, got), "step %d %s: store answered %s, model expects %s\nhistory: %v", i, op, got, exp, opsString(sp.Ops[:i+1]))
					return
				}
			}
			sr.model = want
			if op.Op == "push" && got.Err == "" {
				sr.graphKnown[op.Node] = true
			}
			if op.Op == "gc" {
				sr.relearn()
			}
			var d string
			simrt.Observe(func() {
				snap := takeSnapshot(sr.store.(storeAPI), g, sp.Kind == "oci", false)
				if useModel {
					// full observable-state comparison after every step
					d = diffSnapshots(snap, modelSnapshot(sr.model), "store", "model", g, sp.Kind == "oci", false)
					if d == "" && sp.Kind == "oci" && (op.Op == "gc" || op.Op == "delete") && sr.p.id == "C09" {
						d = sr.blobListingDiff()
					}
					return
				}
				if sr.p.id == "C07" {
					// Predecessors must be exact with respect to what the store itself holds
					stored := map[int]bool{}
					for i, e := range snap.Exists {
						if e {
							stored[i] = true
						}
					}
					for _, n := range g.Nodes {
						if g.Canon(n.ID) != n.ID {
							continue
						}
						var wantP []string
						for _, pp := range g.Preds(n.ID, stored, false) {
							wantP = append(wantP, descKey(g.Nodes[pp].Desc))
						}
						sort.Strings(wantP)
						if strings.Join(wantP, ",") != strings.Join(snap.Preds[n.ID], ",") {
							d = fmt.Sprintf("Predecessors(n%d): store=%v, stored manifests linking to it=%v", n.ID, shortKeys(g, snap.Preds[n.ID]), shortKeys(g, wantP))
							return
						}
						if len(wantP) > 0 {
							sr.info.Nontrivial = true
						}
					}
				}
			})
			if d != "" {
				v = violation(sr.stateClass(op, d), sr.stateSignature(op, d), "after step %d %s: %s\nhistory: %v", i, op, d, opsString(sp.Ops[:i+1]))
				return
			}
		}
	})
	sr.rc.Done(res)
	if ov := sr.outcome(res); ov != nil {
		ov.Detail += fmt.Sprintf("\nat step %d %s; history: %v", step, lastOp, opsString(sp.Ops[:step+1]))
		if ov.Class == "no-termination" {
			ov.Signature = sr.terminationSignature(lastOp)
		}
		return ov
	}
	if v != nil {
		return v
	}
	sr.info.StateHash = strHash(sr.model.Key())
	sr.info.CaseHash = simrt.Mix(sr.info.CaseHash, sr.info.StateHash)
	return nil
}

func (sr *storeRun) supported(op SOp) bool {
	if sr.sp.Kind == "oci" {
		return true
	}
	switch op.Op {
	case "untag", "delete", "tags", "gc", "gccancel", "saveindex":
		return false
	}
	return true
}

// judged: which operations' answers are judged under which property.
func (sr *storeRun) judged(op SOp) bool { return true }

func (sr *storeRun) class(op SOp) string {
	switch sr.p.id {
	case "C07":
		if op.Op == "preds" {
			return "predecessors-wrong"
		}
	case "C09":
		if op.Op == "delete" || op.Op == "gc" {
			return "gc-result-wrong"
		}
	}
	return "answer-differs-from-model"
}

func (sr *storeRun) signature(op SOp, exp, got SRes) string {
	if sr.p.id == "C09" && op.Op == "gc" && strings.HasPrefix(got.Err, "other:") && strings.Contains(got.Err, "not found") {
		return "gc-fails-on-index-entry-with-missing-subject"
	}
	return ""
}

func (sr *storeRun) terminationSignature(op SOp) string {
	if op.Op == "gc" {
		return "gc-spins-on-indexed-referrer-whose-subject-is-not-kept"
	}
	return ""
}

func (sr *storeRun) stateClass(op SOp, diff string) string {
	if strings.HasPrefix(diff, "Predecessors") {
		return "predecessors-wrong"
	}
	if sr.p.id == "C09" && (op.Op == "delete" || op.Op == "gc") {
		return "gc-result-wrong"
	}
	return "state-differs-from-model"
}

func (sr *storeRun) stateSignature(op SOp, diff string) string {
	var n int
	if strings.HasPrefix(diff, "Predecessors") && sr.gcRan && sr.sp.Kind == "oci" {
		if st, ok := sr.store.(storeAPI); ok {
			found := false
			simrt.Observe(func() {
				snap := takeSnapshot(st, sr.g, false, false)
				found = sr.unindexedManifestOnDisk(snap) >= 0
			})
			if found {
				return "stored-manifest-without-index-entry-after-gc"
			}
		}
	}
	if op.Op == "delete" && sr.sp.AutoGC {
		if _, err := fmt.Sscanf(diff, "Exists(n%d): store=true model=false", &n); err == nil && !sr.graphKnown[n] {
			return "autogc-misses-node-unknown-to-graph"
		}
	}
	return ""
}

// unindexedManifestOnDisk reports a stored manifest that index.json does not
// list (read from the directory itself, not from the model).
func (sr *storeRun) unindexedManifestOnDisk(snap *Snapshot) int {
	b, err := os.ReadFile(filepath.Join(sr.dir, "index.json"))
	if err != nil {
		return -1
	}
	var idx ocispec.Index
	if json.Unmarshal(b, &idx) != nil {
		return -1
	}
	listed := map[digest.Digest]bool{}
	for _, m := range idx.Manifests {
		listed[m.Digest] = true
	}
	for _, n := range sr.g.Nodes {
		if n.IsManif && snap.Exists[sr.g.Canon(n.ID)] && !listed[n.Desc.Digest] {
			return n.ID
		}
	}
	return -1
}

func (sr *storeRun) countOp(op SOp, got SRes, after *SModel) {
	in := sr.info
	switch {
	case got.Err == "" && (op.Op == "push" || op.Op == "tag" || op.Op == "retag" || op.Op == "untag" || op.Op == "delete"):
		in.Probes["mutation_succeeded"]++
	case got.Err != "" && (op.Op == "push" || op.Op == "tag" || op.Op == "retag" || op.Op == "untag" || op.Op == "delete"):
		in.Probes["mutation_refused"]++
	}
	if in.Probes["mutation_succeeded"] > 0 && in.Probes["mutation_refused"] > 0 {
		in.Nontrivial = true
	}
	if op.Op == "preds" && len(got.List) > 0 {
		in.Probes["preds_nonempty"]++
		in.Nontrivial = true
	}
	if op.Op == "delete" && got.Err == "" && len(sr.model.present)-len(after.present) > 1 {
		in.Probes["delete_cascaded"]++
		in.Nontrivial = true
	}
	if op.Op == "gc" && len(sr.model.present) > len(after.present) {
		in.Probes["gc_removed_garbage"]++
		in.Nontrivial = true
	}
	if op.Op == "tag" && got.Err == "" {
		if old, ok := sr.model.tags[op.Ref]; ok && old != op.Node {
			in.Probes["tag_moved"]++
		}
	}
	if op.Op == "retag" && got.Err == "" {
		in.Probes["tag_promoted_from_resolved_descriptor"]++
	}
}

// blobListingDiff compares blobs/ with the model's content map.
func (sr *storeRun) blobListingDiff() string {
	want := map[string]bool{}
	for i := range sr.model.present {
		want[sr.g.Nodes[i].Desc.Digest.Encoded()] = true
	}
	// strays survive Delete, not GC; judged only right after GC
	have := map[string]bool{}
	for _, alg := range []string{"sha256", "sha512"} {
		entries, _ := os.ReadDir(filepath.Join(sr.dir, "blobs", alg))
		for _, e := range entries {
			if isStrayName(e.Name()) {
				continue // not content; nobody is asked to remove it
			}
			have[e.Name()] = true
			if alg == "sha512" {
				sr.info.Probes["sha512_blob_on_disk"]++
			}
		}
	}
	strays := map[string]bool{}
	for i := 0; i < sr.sp.Stray; i++ {
		strays[digest.FromBytes([]byte(fmt.Sprintf("stray-%d", i))).Encoded()] = true
	}
	for h := range have {
		if !want[h] && !(strays[h] && !sr.gcRan) {
			return fmt.Sprintf("blobs/ contains %s which the model considers removed", h[:12])
		}
	}
	for w := range want {
		if !have[w] {
			return fmt.Sprintf("blobs/ lacks %s which the model considers live", w[:12])
		}
	}
	return ""
}

// ---------- reopen + disk validity (C08, C07) ----------

func tarDir(dir, out string) error { return tarDirStale(dir, out, false) }

// tarDirStale: with stale set the archive begins with an outdated index.json (no manifests), the
// way an archive looks that was updated in place with tar -r: the later entry of a name is the one that counts.
func tarDirStale(dir, out string, stale bool) error {
	f, err := os.Create(out)
	if err != nil {
		return err
	}
	defer f.Close()
	tw := tar.NewWriter(f)
	if stale {
		old := []byte(`{"schemaVersion":2,"manifests":[]}`)
		if err := tw.WriteHeader(&tar.Header{Name: "index.json", Mode: 0o644, Size: int64(len(old)), Typeflag: tar.TypeReg}); err != nil {
			return err
		}
		if _, err := tw.Write(old); err != nil {
			return err
		}
	}
	err = filepath.Walk(dir, func(p string, fi os.FileInfo, err error) error {
		if err != nil {
			return err
		}
		rel, _ := filepath.Rel(dir, p)
		if rel == "." {
			return nil
		}
		hdr, err := tar.FileInfoHeader(fi, "")
		if err != nil {
			return err
		}
		hdr.Name = filepath.ToSlash(rel)
		if fi.IsDir() {
			hdr.Name += "/"
		}
		if err := tw.WriteHeader(hdr); err != nil {
			return err
		}
		if fi.Mode().IsRegular() {
			src, err := os.Open(p)
			if err != nil {
				return err
			}
			defer src.Close()
			_, err = io.Copy(tw, src)
			return err
		}
		return nil
	})
	if err != nil {
		return err
	}
	return tw.Close()
}

// cancelFS cancels a context when its at-th file is opened.
type cancelFS struct {
	fs.FS
	at     int
	n      int
	cancel context.CancelFunc
}

func (c *cancelFS) Open(name string) (fs.File, error) {
	c.n++
	if c.n == c.at {
		c.cancel()
	}
	return c.FS.Open(name)
}

// taggedUnderTwoMediaTypes: the history tags blob n both as what it is and as octet-stream.
func (sr *storeRun) taggedUnderTwoMediaTypes(n int) bool {
	if n < 0 || n >= len(sr.g.Nodes) || sr.g.Nodes[n].IsManif {
		return false
	}
	plain, octet := false, false
	for _, list := range [][]SOp{sr.sp.Prologue, sr.sp.Ops, sr.sp.Epilogue} {
		for _, o := range list {
			if o.Op == "tag" && sr.g.Canon(o.Node) == sr.g.Canon(n) {
				if o.Var == 3 {
					octet = true
				} else {
					plain = true
				}
			}
		}
	}
	return plain && octet
}

// failFS fails its at-th Open with an I/O error that is not "does not exist".
type failFS struct {
	fs.FS
	at int
	n  int
}

func (f *failFS) Open(name string) (fs.File, error) {
	f.n++
	if f.n == f.at {
		return nil, &fs.PathError{Op: "open", Path: name, Err: syscall.EIO}
	}
	return f.FS.Open(name)
}

// checkLayout verifies the on-disk layout.
func checkLayout(dir string) string {
	b, err := os.ReadFile(filepath.Join(dir, "oci-layout"))
	if err != nil {
		return "oci-layout unreadable: " + err.Error()
	}
	var lay ocispec.ImageLayout
	if err := json.Unmarshal(b, &lay); err != nil {
		return "oci-layout does not parse: " + err.Error()
	}
	b, err = os.ReadFile(filepath.Join(dir, "index.json"))
	if err != nil {
		return "index.json unreadable: " + err.Error()
	}
	var idx ocispec.Index
	if err := json.Unmarshal(b, &idx); err != nil {
		return fmt.Sprintf("index.json does not parse (%d bytes): %v", len(b), err)
	}
	algs, _ := os.ReadDir(filepath.Join(dir, "blobs"))
	for _, a := range algs {
		files, _ := os.ReadDir(filepath.Join(dir, "blobs", a.Name()))
		for _, f := range files {
			data, err := os.ReadFile(filepath.Join(dir, "blobs", a.Name(), f.Name()))
			if err != nil {
				return "blob unreadable: " + f.Name()
			}
			d := digest.NewDigestFromEncoded(digest.Algorithm(a.Name()), f.Name())
			if d.Validate() != nil {
				if isStrayName(f.Name()) {
					continue // planted by the scenario: no blob at all
				}
				return fmt.Sprintf("file blobs/%s/%s is not named after the digest of its bytes (%d bytes)", a.Name(), f.Name(), len(data))
			}
			if digest.Algorithm(a.Name()).FromBytes(data) != d {
				return fmt.Sprintf("blob file %s/%s does not hash to its name (%d bytes)", a.Name(), f.Name()[:12], len(data))
			}
		}
	}
	for _, m := range idx.Manifests {
		if m.Annotations[ocispec.AnnotationRefName] == "" {
			continue
		}
		fi, err := os.Stat(filepath.Join(dir, "blobs", m.Digest.Algorithm().String(), m.Digest.Encoded()))
		if err != nil {
			return fmt.Sprintf("index.json entry %q points to a missing blob %s", m.Annotations[ocispec.AnnotationRefName], m.Digest.Encoded()[:12])
		}
		if fi.Size() != m.Size {
			return fmt.Sprintf("index.json entry %q records size %d, blob has %d", m.Annotations[ocispec.AnnotationRefName], m.Size, fi.Size())
		}
	}
	return ""
}

// reopenExternal opens a copy of the layout whose index.json lists only the
// tagged entries (as a layout written by another tool does) and checks that
// Predecessors is exact for everything reachable from those entries.
func (sr *storeRun) reopenExternal() *Verdict {
	g := sr.g
	var v *Verdict
	simrt.Observe(func() {
		ext := filepath.Join(sr.rc.DiskDir, "external")
		os.RemoveAll(ext)
		if err := copyTree(sr.dir, ext); err != nil {
			return
		}
		b, err := os.ReadFile(filepath.Join(ext, "index.json"))
		if err != nil {
			return
		}
		var idx ocispec.Index
		if json.Unmarshal(b, &idx) != nil {
			return
		}
		var kept []ocispec.Descriptor
		reach := map[int]bool{}
		stored := func(i int) bool {
			d := g.Nodes[i].Desc.Digest
			_, err := os.Stat(filepath.Join(ext, "blobs", d.Algorithm().String(), d.Encoded()))
			return err == nil
		}
		var walk func(i int)
		walk = func(i int) {
			i = g.Canon(i)
			if reach[i] || !stored(i) {
				return
			}
			reach[i] = true
			for _, c := range g.Nodes[i].Succ {
				walk(c)
			}
		}
		for _, m := range idx.Manifests {
			if m.Annotations[ocispec.AnnotationRefName] == "" {
				continue
			}
			kept = append(kept, m)
			if i := g.LookupDigest(m.Digest); i >= 0 {
				walk(i)
			}
		}
		idx.Manifests = kept
		if idx.Manifests == nil {
			idx.Manifests = []ocispec.Descriptor{}
		}
		if len(kept) >= 2 && len(sr.sp.Ops)%3 == 0 {
			// the blob of the first listed manifest is lost (removed from outside): the others
			// load all the same, and what they link to is answered exactly
			first := kept[0].Digest
			os.Remove(filepath.Join(ext, "blobs", first.Algorithm().String(), first.Encoded()))
			reach = map[int]bool{}
			for _, m := range kept {
				if i := g.LookupDigest(m.Digest); i >= 0 {
					walk(i)
				}
			}
			sr.info.Probes["layout_opened_with_a_listed_blob_missing"]++
		}
		nb, _ := json.Marshal(idx)
		os.WriteFile(filepath.Join(ext, "index.json"), nb, 0o644)
		re, err := oci.NewFromFS(context.Background(), os.DirFS(ext))
		if err != nil {
			v = violation("reopen-failed", "", "opening a layout whose index lists only tagged entries failed: %v", err)
			return
		}
		nested := false
		for _, n := range g.Nodes {
			if g.Canon(n.ID) != n.ID {
				continue
			}
			var want []string
			for _, pp := range g.Preds(n.ID, reach, false) {
				want = append(want, descKey(g.Nodes[pp].Desc))
				if len(g.Preds(pp, reach, false)) > 0 {
					nested = true
				}
			}
			sort.Strings(want)
			got := execOp(context.Background(), re, g, SOp{Op: "preds", Node: n.ID})
			if strings.Join(want, ",") != strings.Join(got.List, ",") {
				v = violation("predecessors-wrong", "", "layout reopened with only its tagged index entries: Predecessors(n%d)=%v, stored manifests reachable from the index that link to it=%v\nhistory: %v", n.ID, shortKeys(g, got.List), shortKeys(g, want), opsString(sr.sp.Ops))
				return
			}
		}
		if nested {
			sr.info.Probes["external_layout_nested_manifest"]++
			sr.info.Nontrivial = true
		}
	})
	return v
}

func copyTree(src, dst string) error {
	return filepath.Walk(src, func(p string, fi os.FileInfo, err error) error {
		if err != nil {
			return err
		}
		rel, _ := filepath.Rel(src, p)
		t := filepath.Join(dst, rel)
		if fi.IsDir() {
			return os.MkdirAll(t, 0o755)
		}
		b, err := os.ReadFile(p)
		if err != nil {
			return err
		}
		return os.WriteFile(t, b, 0o644)
	})
}

func (sr *storeRun) reopen(how string) *Verdict {
	if sr.sp.Kind != "oci" {
		return nil
	}
	if how == "external" {
		return sr.reopenExternal()
	}
	g := sr.g
	var v *Verdict
	if sr.p.id == "C09" {
		// C09 only uses a reload as a step of the history; what a reload must
		// preserve is C08's subject
		if !sr.sp.AutoSave {
			sr.store.(*oci.Store).SaveIndex()
		}
		simrt.Observe(func() {
			s, err := oci.New(sr.dir)
			if err != nil {
				v = violation("reopen-failed", "", "reopen(new) failed: %v", err)
				return
			}
			s.AutoGC, s.AutoSaveIndex = sr.sp.AutoGC, sr.sp.AutoSave
			sr.store = s
			sr.relearn()
		})
		return v
	}
	cancelAt := 0
	if strings.HasPrefix(how, "fscancel") {
		cancelAt, _ = strconv.Atoi(strings.TrimPrefix(how, "fscancel"))
		how = "fscancel"
	}
	if strings.HasPrefix(how, "fsfail") {
		cancelAt, _ = strconv.Atoi(strings.TrimPrefix(how, "fsfail"))
		how = "fsfail"
	}
	cur := sr.store.(*oci.Store)
	if !sr.sp.AutoSave {
		if err := cur.SaveIndex(); err != nil {
			return violation("answer-differs-from-model", "", "SaveIndex failed: %v", err)
		}
	}
	simrt.Observe(func() {
		if d := checkLayout(sr.dir); d != "" {
			v = violation("layout-invalid", "", "at quiescence before reopen(%s): %s\nhistory: %v", how, d, opsString(sr.sp.Ops))
			return
		}
		orig := takeSnapshot(cur, g, true, true)
		var re storeAPI
		var err error
		switch how {
		case "new":
			var s *oci.Store
			s, err = oci.New(sr.dir)
			if s != nil {
				s.AutoGC, s.AutoSaveIndex = sr.sp.AutoGC, sr.sp.AutoSave
				re = s
			}
		case "fs":
			re, err = oci.NewFromFS(context.Background(), os.DirFS(sr.dir))
		case "fscancel":
			// the context is cancelled when the k-th file of the layout is opened: the load
			// must fail, or the store must be complete all the same
			cctx, cancel := context.WithCancel(context.Background())
			re, err = oci.NewFromFS(cctx, &cancelFS{FS: os.DirFS(sr.dir), at: cancelAt, cancel: cancel})
			cancel()
			if err != nil {
				sr.info.Probes["reopen_cancelled_midway_failed"]++
				err = nil
				return
			}
			sr.info.Probes["reopen_cancelled_midway_succeeded"]++
		case "fsfail":
			// the k-th file of the layout cannot be opened (EIO): the load must fail, or the store
			// must be complete all the same
			ffs := &failFS{FS: os.DirFS(sr.dir), at: cancelAt}
			re, err = oci.NewFromFS(context.Background(), ffs)
			hit := ffs.n >= ffs.at
			ffs.at = 0 // only the load meets the failure, not the questions asked afterwards
			if err != nil {
				sr.info.Probes["reopen_with_unreadable_file_failed"]++
				err = nil
				return
			}
			if hit {
				sr.info.Probes["reopen_with_unreadable_file_succeeded"]++
			}
		case "tar", "tarstale":
			tp := filepath.Join(sr.rc.DiskDir, "layout.tar")
			if err = tarDirStale(sr.dir, tp, how == "tarstale"); err == nil {
				re, err = oci.NewFromTar(context.Background(), tp)
			}
		}
		if err != nil {
			v = violation("reopen-failed", "", "reopen(%s) failed: %v\nhistory: %v", how, err, opsString(sr.sp.Ops))
			return
		}
		snap := takeSnapshot(re, g, true, true)
		if d := diffSnapshots(orig, snap, "original", "reopened("+how+")", g, true, true); d != "" {
			sig := ""
			var dn int
			if _, err := fmt.Sscanf(d, "Resolve(digest of n%d)", &dn); err == nil && sr.taggedUnderTwoMediaTypes(dn) {
				sig = "resolve-by-digest-of-blob-tagged-under-two-media-types"
			}
			if m := sr.unindexedManifestOnDisk(orig); m >= 0 && sr.gcRan {
				sig = "stored-manifest-without-index-entry-after-gc"
				d += fmt.Sprintf(" (manifest n%d is stored but GC dropped its index entry)", m)
			}
			v = violation("reopen-differs", sig, "%s\nhistory: %v", d, opsString(sr.sp.Ops))
			return
		}
		nt, nb := 0, 0
		for _, t := range snap.Tags {
			_ = t
			nt++
		}
		for _, e := range snap.Exists {
			if e {
				nb++
			}
		}
		if nt >= 1 && nb >= 2 {
			sr.info.Nontrivial = true
			sr.info.Probes["reopen_with_tags_"+how]++
		}
		if how == "tar" {
			for i, e := range snap.Exists {
				if e && g.Nodes[i].Spec.Alg == "sha512" {
					sr.info.Probes["reopen_from_tar_with_sha512_blob"]++
					break
				}
			}
		}
		if how == "new" && sr.model != nil {
			sr.store = re
			sr.relearn()
		}
	})
	return v
}

// ---------- concurrent histories (C06, C07) ----------

type histOp struct {
	Op       SOp
	Res      SRes
	Call     int64
	Ret      int64
	ClientID int
}

func (sr *storeRun) concurrent() *Verdict {
	sp, g := sr.sp, sr.g
	if err := sr.open(); err != nil {
		sr.info.Outcome = "setup-skip"
		return nil
	}
	ctx := context.Background()
	var hist []histOp
	var histMu sync.Mutex
	var clock int64
	tick := func() int64 { clock++; return clock }
	var badBytes, reopenV *Verdict
	simos.Reset(simos.Config{Budget: diskBudget})
	defer simos.Disable()
	res := simrt.Run(sr.rc.NextConfig(), func() {
		for _, op := range sp.Prologue {
			histMu.Lock()
			call := tick()
			histMu.Unlock()
			simos.SetBudget(diskBudget)
			got := execOp(ctx, sr.store, g, op)
			histMu.Lock()
			hist = append(hist, histOp{Op: op, Res: got, Call: call, Ret: tick(), ClientID: sp.Tasks + 2})
			histMu.Unlock()
		}
		done := make(chan struct{}, sp.Tasks)
		for t := 0; t < sp.Tasks; t++ {
			t := t
			simrt.Go(func() {
				defer func() { done <- struct{}{} }()
				for oi, op := range sp.Ops {
					if op.Task != t || op.Op == "reopen" || !sr.supported(op) || (op.Op == "gc" && !sp.ConcGC) || op.Op == "gccancel" {
						continue
					}
					if op.Op == "retag" {
						// two calls, two operations of the history: Resolve, then Tag of what it returned
						op = SOp{Op: "resolve", Ref: op.From, Task: op.Task}
						histMu.Lock()
						call := tick()
						histMu.Unlock()
						d, err := sr.store.(content.Resolver).Resolve(ctx, op.Ref)
						got := SRes{Err: errClass(err)}
						if err == nil {
							got.Desc = resolveKey(d)
						}
						histMu.Lock()
						hist = append(hist, histOp{Op: op, Res: got, Call: call, Ret: tick(), ClientID: t})
						histMu.Unlock()
						n := g.Lookup(d)
						if err != nil || n < 0 {
							continue
						}
						v, _ := strconv.Atoi(d.Annotations["variant"])
						top := SOp{Op: "tag", Node: n, Var: v, Ref: sp.Ops[oi].Ref, Task: op.Task}
						histMu.Lock()
						call = tick()
						histMu.Unlock()
						simos.SetBudget(diskBudget)
						got = SRes{Err: errClass(sr.store.(content.Tagger).Tag(ctx, d, top.Ref))}
						histMu.Lock()
						hist = append(hist, histOp{Op: top, Res: got, Call: call, Ret: tick(), ClientID: t})
						histMu.Unlock()
						continue
					}
					histMu.Lock()
					call := tick()
					histMu.Unlock()
					simos.SetBudget(diskBudget)
					got := execOp(ctx, sr.store, g, op)
					histMu.Lock()
					ret := tick()
					hist = append(hist, histOp{Op: op, Res: got, Call: call, Ret: ret, ClientID: t})
					histMu.Unlock()
					if op.Op == "fetch" && got.Err == "" && got.Data != dataHash(g.Nodes[op.Node].Data) {
						badBytes = violation("wrong-bytes", "", "Fetch(n%d) returned bytes that do not match the descriptor", op.Node)
					}
				}
			})
		}
		for t := 0; t < sp.Tasks; t++ {
			<-done
			simrt.Yield("join")
		}
		for _, op := range sp.Epilogue {
			histMu.Lock()
			call := tick()
			histMu.Unlock()
			simos.SetBudget(diskBudget)
			got := execOp(ctx, sr.store, g, op)
			histMu.Lock()
			hist = append(hist, histOp{Op: op, Res: got, Call: call, Ret: tick(), ClientID: sp.Tasks + 1})
			histMu.Unlock()
			sr.info.Probes["epilogue_op_after_concurrent_part"]++
		}
		if sp.Kind == "oci" && (sr.p.id == "C07" || sr.p.id == "C08") {
			// quiescent now: what the concurrent history left on disk must reopen to the live store's answers
			for _, how := range []string{"fs", "tar", "new"} {
				if reopenV = sr.reopen(how); reopenV != nil {
					return
				}
				sr.info.Probes["reopen_after_concurrent_history"]++
			}
		}
	})
	sr.rc.Done(res)
	if ov := sr.outcome(res); ov != nil {
		return ov
	}
	if badBytes != nil {
		return badBytes
	}
	if reopenV != nil {
		return reopenV
	}
	if res.Choices >= 3 {
		sr.info.Nontrivial = true
	}
	// read-back after quiescence: every observable of the universe becomes a
	// read operation that follows all others
	snap := takeSnapshot(sr.store.(storeAPI), g, sp.Kind == "oci", false)
	// porcupine: is there a sequential order (respecting real-time order) of the
	// recorded operations after which the model's observable state equals the read-back?
	model := sr.porcupineModel(snap)
	var ops []porcupine.Operation
	for _, h := range hist {
		ops = append(ops, porcupine.Operation{ClientId: h.ClientID, Input: h.Op, Call: h.Call, Output: h.Res, Return: h.Ret})
	}
	end := tick()
	ops = append(ops, porcupine.Operation{ClientId: sp.Tasks, Input: SOp{Op: "readback"}, Call: end, Output: SRes{}, Return: end + 1})
	r := porcupine.CheckOperationsTimeout(model, ops, 20*time.Second)
	switch r {
	case porcupine.Illegal:
		var lines []string
		sort.Slice(hist, func(i, j int) bool { return hist[i].Call < hist[j].Call })
		for _, h := range hist {
			lines = append(lines, fmt.Sprintf("t%d [%d,%d] %s -> %s", h.ClientID, h.Call, h.Ret, h.Op, h.Res))
		}
		// diagnosis: the order of invocation, replayed on the model
		dm := NewSModel(g, sp.Kind, sp.AutoGC)
		dm.ignoreNoName = sp.IgnoreNoName
		for _, h := range hist {
			dm.Apply(h.Op)
		}
		diag := diffSnapshots(snap, modelSnapshot(dm), "store", "model-in-invocation-order", g, sp.Kind == "oci", false)
		return violation("not-linearizable", "", "no sequential order of the %d recorded operations explains their results and the state read back after quiescence\n%s\n(for orientation, against invocation order: %s)", len(hist), strings.Join(lines, "\n"), diag)
	case porcupine.Unknown:
		sr.info.Probes["porcupine_timeout"]++
	}
	sr.info.Probes["porcupine_checked"]++
	sr.info.StateHash = hashJSON(snap)
	sr.info.CaseHash = simrt.Mix(sr.info.CaseHash, sr.info.StateHash)
	return nil
}

func (sr *storeRun) porcupineModel(final *Snapshot) porcupine.Model {
	g, kind := sr.g, sr.sp.Kind
	return porcupine.Model{
		Init: func() interface{} {
			m := NewSModel(g, kind, sr.sp.AutoGC)
			m.ignoreNoName = sr.sp.IgnoreNoName
			return m
		},
		Step: func(state, input, output interface{}) (bool, interface{}) {
			m := state.(*SModel).Clone()
			op := input.(SOp)
			if m.Ambiguous != "" {
				// a corner the statement leaves open was passed in this order: nothing after it is judged
				return true, m
			}
			if op.Op == "readback" {
				d := diffSnapshots(final, modelSnapshot(m), "store", "model", g, kind == "oci", false)
				return d == "", m
			}
			got := output.(SRes)
			before := m.present[op.Node]
			exp := m.Apply(op)
			if m.Ambiguous != "" {
				sr.info.Probes["unjudged_corner_in_some_order"]++
				return true, m
			}
			if op.Op == "push" && before && got.Err == "" {
				// two overlapping pushes of the same content may both report success
				return true, m
			}
			switch op.Op {
			case "fetch", "exists", "resolve", "preds", "tags":
				// the statement promises a sequentially explainable state after
				// quiescence, not linearizable reads: a Push makes content visible
				// before its links are indexed. Reads that overlap writes are only
				// required to return matching bytes (checked at the call).
				return true, m
			}
			// State-changing operations: the statement promises a sequentially
			// explainable state, and that a refused operation changes nothing. So an
			// operation that reported failure must also fail (and change nothing) at its
			// place in the order; two overlapping operations that both report success
			// where a sequential run would refuse the second (two Untags of one tag, two
			// Pushes of one blob) are not judged.
			if got.Err != "" && exp.Err == "" {
				return false, m
			}
			_ = exp.Err == "*" // refused-or-ignored operations change nothing either way
			return true, m
		},
		Equal: func(a, b interface{}) bool {
			ma, mb := a.(*SModel), b.(*SModel)
			if ma.Ambiguous != "" || mb.Ambiguous != "" {
				return ma.Ambiguous != "" && mb.Ambiguous != "" // nothing is judged after either
			}
			return ma.Key() == mb.Key()
		},
		DescribeOperation: func(input, output interface{}) string {
			return fmt.Sprintf("%s -> %s", input.(SOp), output.(SRes))
		},
	}
}
