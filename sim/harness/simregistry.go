package harness

import (
	"bytes"
	"encoding/json"
	"errors"
	"fmt"
	"io"
	"net/http"
	"net/url"
	"regexp"
	"sort"
	"strconv"
	"strings"
	"sync"

	"github.com/opencontainers/go-digest"
	ocispec "github.com/opencontainers/image-spec/specs-go/v1"
	"oras.land/oras-go/v2/zsim/simrt"
)

// RegProfile is the capability profile of the simulated registry, drawn per run.
type RegProfile struct {
	ReferrersAPI    bool   `json:"referrers_api"`
	OCISubject      bool   `json:"oci_subject,omitempty"`       // answer manifest PUT with OCI-Subject (needs ReferrersAPI)
	DigestHeader    bool   `json:"digest_header"`               // Docker-Content-Digest on responses
	Range           bool   `json:"range,omitempty"`             // Accept-Ranges: bytes and Range requests
	MountOK         bool   `json:"mount_ok,omitempty"`          // cross-repository mount answers 201
	NoContentLength bool   `json:"no_content_length,omitempty"` // GET bodies are sent without Content-Length
	Location        string `json:"location,omitempty"`          // relative | absolute | query
	TagCap          int    `json:"tag_cap,omitempty"`           // server-imposed page sizes (0 = none)
	RefCap          int    `json:"ref_cap,omitempty"`
	CatalogCap      int    `json:"catalog_cap,omitempty"`
	LinkForm        int    `json:"link_form,omitempty"`     // 0-5: "last"-based next links in several spellings; 6,7: opaque continuation token
	ServerFilter    string `json:"server_filter,omitempty"` // "" | header | annotation
	MountDeny       string `json:"mount_deny,omitempty"`    // cross-repository mounts from this repository are answered 403
	BlobRedirect    bool   `json:"blob_redirect,omitempty"` // blob GETs are answered 307 to a storage URL that serves one request
}

// simStorageHost: where blob redirects (Profile.BlobRedirect) point.
const simStorageHost = "blobstore.test"

type storedBlob struct {
	data []byte
	dgst digest.Digest
}

type regManifest struct {
	MediaType string
	Data      []byte
}

type regRepo struct {
	blobs     map[digest.Digest][]byte
	manifests map[digest.Digest]*regManifest
	tags      map[string]digest.Digest
	uploads   map[string]bool
	order     []digest.Digest // manifest arrival order (referrers listing order)
}

func newRegRepo() *regRepo {
	return &regRepo{blobs: map[digest.Digest][]byte{}, manifests: map[digest.Digest]*regManifest{}, tags: map[string]digest.Digest{}, uploads: map[string]bool{}}
}

// ReqRecord is one request as seen by the registry.
type ReqRecord struct {
	N      int
	Method string
	URL    string
	Class  string // ping catalog tags manifest blob upload-start upload-put referrers
	Repo   string
	Ref    string
	Status int
	Body   int // request body bytes
	Resp   int // response body bytes
	Task   int
}

// NetFault corrupts or fails the response to the N-th request (1-based) or the
// Occur-th request of a class.
type NetFault struct {
	Class  string `json:"class,omitempty"` // request class to match ("" = any)
	Method string `json:"method,omitempty"`
	Occur  int    `json:"occur"` // n-th matching request (1-based)
	Kind   string `json:"kind"`  // digest-header | content-length | content-type | truncate-body | flip-body | status-500 | transport | drop-after-apply
}

type SimRegistry struct {
	mu               sync.Mutex
	Host             string
	Profile          RegProfile
	repos            map[string]*regRepo
	Known            map[string]bool // repositories the workload may address
	reqs             []ReqRecord
	Invalid          []string // spec violations found by the validator
	faults           []NetFault
	matchCnt         map[int]int
	Fired            map[string]int
	FaultReq         []int // numbers of the requests whose response was tampered with
	uploadSeq        int
	MountDenied      int                   // mount requests answered 403 (Profile.MountDeny)
	storageTokens    map[string]storedBlob // single-use storage URLs handed out by blob redirects
	storageSeq       int
	StorageRefused   int                               // requests to a storage URL that was used up or never issued
	PagedReferrers   int                               // referrers listings that continued on another page (workload requests only)
	issuedTokens     map[string]bool                   // opaque continuation tokens handed out in Link headers
	BodyRead         map[int]*int                      // bytes consumed from response bodies, per request number
	AlwaysOCISubject bool                              // contradictory registry: OCI-Subject although the Referrers API is absent
	PadBody          int                               // referrers/tags/catalog documents are padded with this much whitespace-free filler
	ListHook         func(class string, page []string) // observation of pages served
}

func NewSimRegistry(host string, p RegProfile) *SimRegistry {
	return &SimRegistry{Host: host, Profile: p, repos: map[string]*regRepo{}, Known: map[string]bool{}, matchCnt: map[int]int{}, Fired: map[string]int{}, BodyRead: map[int]*int{}}
}

func (s *SimRegistry) repo(name string) *regRepo {
	r := s.repos[name]
	if r == nil {
		r = newRegRepo()
		s.repos[name] = r
	}
	return r
}

// direct state access for set-up and oracles (no HTTP involved)

func (s *SimRegistry) PutBlob(repo string, data []byte) digest.Digest {
	s.mu.Lock()
	defer s.mu.Unlock()
	d := digest.FromBytes(data)
	s.repo(repo).blobs[d] = data
	return d
}

func (s *SimRegistry) PutManifest(repo, mediaType string, data []byte, tags ...string) digest.Digest {
	s.mu.Lock()
	defer s.mu.Unlock()
	d := digest.FromBytes(data)
	r := s.repo(repo)
	if _, ok := r.manifests[d]; !ok {
		r.order = append(r.order, d)
	}
	r.manifests[d] = &regManifest{MediaType: mediaType, Data: data}
	for _, t := range tags {
		r.tags[t] = d
	}
	return d
}

func (s *SimRegistry) HasBlob(repo string, d digest.Digest) ([]byte, bool) {
	s.mu.Lock()
	defer s.mu.Unlock()
	b, ok := s.repo(repo).blobs[d]
	return b, ok
}

func (s *SimRegistry) HasManifest(repo string, d digest.Digest) (*regManifest, bool) {
	s.mu.Lock()
	defer s.mu.Unlock()
	m, ok := s.repo(repo).manifests[d]
	return m, ok
}

func (s *SimRegistry) TagOf(repo, tag string) (digest.Digest, bool) {
	s.mu.Lock()
	defer s.mu.Unlock()
	d, ok := s.repo(repo).tags[tag]
	return d, ok
}

func (s *SimRegistry) Tags(repo string) []string {
	s.mu.Lock()
	defer s.mu.Unlock()
	var out []string
	for t := range s.repo(repo).tags {
		out = append(out, t)
	}
	sort.Strings(out)
	return out
}

func (s *SimRegistry) ManifestDigests(repo string) []digest.Digest {
	s.mu.Lock()
	defer s.mu.Unlock()
	return append([]digest.Digest(nil), s.repo(repo).order...)
}

func (s *SimRegistry) Requests() []ReqRecord {
	s.mu.Lock()
	defer s.mu.Unlock()
	return append([]ReqRecord(nil), s.reqs...)
}

func (s *SimRegistry) SetFaults(f []NetFault) { s.faults = f }

// ResetFaultCounters forgets which faults matched or fired (a new execution begins).
func (s *SimRegistry) ResetFaultCounters() {
	s.matchCnt = map[int]int{}
	s.Fired = map[string]int{}
	s.FaultReq = nil
	s.MountDenied = 0
}

// referrersOf lists, in arrival order, the stored manifests whose subject is d.
func (s *SimRegistry) referrersOf(r *regRepo, d digest.Digest) []ocispec.Descriptor {
	var out []ocispec.Descriptor
	for _, md := range r.order {
		m := r.manifests[md]
		if m == nil {
			continue
		}
		var doc struct {
			Subject      *ocispec.Descriptor `json:"subject"`
			ArtifactType string              `json:"artifactType"`
			Annotations  map[string]string   `json:"annotations"`
			Config       *ocispec.Descriptor `json:"config"`
		}
		if json.Unmarshal(m.Data, &doc) != nil || doc.Subject == nil || doc.Subject.Digest != d {
			continue
		}
		at := doc.ArtifactType
		if at == "" && doc.Config != nil && m.MediaType == mtOCIManifest {
			at = doc.Config.MediaType
		}
		out = append(out, ocispec.Descriptor{MediaType: m.MediaType, Digest: md, Size: int64(len(m.Data)), ArtifactType: at, Annotations: doc.Annotations})
	}
	return out
}

// ReferrersModel is what a registry with the Referrers API lists for d.
func (s *SimRegistry) ReferrersModel(repo string, d digest.Digest) []ocispec.Descriptor {
	s.mu.Lock()
	defer s.mu.Unlock()
	return s.referrersOf(s.repo(repo), d)
}

var tagRe = regexp.MustCompile(`^[a-zA-Z0-9_][a-zA-Z0-9._-]{0,127}$`)
var nameRe = regexp.MustCompile(`^[a-z0-9]+((\.|_|__|-+)[a-z0-9]+)*(/[a-z0-9]+((\.|_|__|-+)[a-z0-9]+)*)*$`)

type countingBody struct {
	io.Reader
	n *int
	// left >= 0: the body reports io.EOF together with its last bytes, as a net/http body of
	// known length does; -1: in a read of its own
	left int
}

func (c *countingBody) Read(p []byte) (int, error) {
	k, err := c.Reader.Read(p)
	*c.n += k
	if c.left >= 0 && err == nil {
		c.left -= k
		if c.left == 0 && k > 0 {
			return k, io.EOF
		}
	}
	return k, err
}
func (c *countingBody) Close() error { return nil }

func (s *SimRegistry) invalid(format string, a ...any) {
	s.Invalid = append(s.Invalid, fmt.Sprintf(format, a...))
}

func errBody(code, msg string) []byte {
	b, _ := json.Marshal(map[string]any{"errors": []map[string]any{{"code": code, "message": msg}}})
	return b
}

type simResp struct {
	status int
	header http.Header
	body   []byte
	noLen  bool
	head   bool
	length int64 // Content-Length to advertise for HEAD
}

// RoundTrip implements http.RoundTripper. The exchange is one atomic event at
// the instant the scheduler releases it.
func (s *SimRegistry) RoundTrip(req *http.Request) (*http.Response, error) {
	var reqBody []byte
	if req.Body != nil && req.Body != http.NoBody {
		var err error
		reqBody, err = io.ReadAll(req.Body)
		req.Body.Close()
		if err != nil {
			return nil, fmt.Errorf("simregistry: reading request body: %w", err)
		}
	}
	observer := simrt.Observing()
	if !observer {
		simrt.Yield("http." + req.Method)
	}
	if err := req.Context().Err(); err != nil {
		return nil, err
	}
	s.mu.Lock()
	defer s.mu.Unlock()
	n := len(s.reqs) + 1
	rec := ReqRecord{N: n, Method: req.Method, URL: req.URL.String(), Body: len(reqBody), Task: simrt.TaskID()}
	if req.ContentLength >= 0 && int64(len(reqBody)) != req.ContentLength && req.Body != nil && req.Body != http.NoBody {
		// what net/http's transport does with such a request
		return nil, fmt.Errorf("http: ContentLength=%d with Body length %d", req.ContentLength, len(reqBody))
	}
	// which fault, if any, hits this exchange (decided before the state changes)
	fault := ""
	rec.Class = classifyPath(req.URL.Path)
	for i, f := range s.faults {
		if observer {
			break // an oracle looking at the registry is not part of the workload
		}
		if (f.Class == "" || f.Class == rec.Class) && (f.Method == "" || f.Method == req.Method) {
			s.matchCnt[i]++
			if s.matchCnt[i] == f.Occur {
				fault = f.Kind
				s.Fired[f.Kind]++
				s.FaultReq = append(s.FaultReq, n)
			}
		}
	}
	var sr simResp
	switch fault {
	case "transport":
		// the request never reached the registry
		rec.Status = 0
		s.reqs = append(s.reqs, rec)
		simrt.Note("http %d %s %s -> connection error (not applied)", n, req.Method, req.URL.RequestURI())
		return nil, errors.New("simregistry: connection reset by peer (injected, request not applied)")
	case "status-500":
		sr = simResp{status: 500, header: http.Header{}, body: errBody("UNKNOWN", "injected")}
	case "status-429":
		// throttled: the request is not applied, the answer says nothing about the endpoint
		sr = simResp{status: 429, header: http.Header{}, body: errBody("TOOMANYREQUESTS", "injected")}
	default:
		sr = s.route(req, reqBody, &rec)
	}
	rec.Status = sr.status
	rec.Resp = len(sr.body)
	if !observer {
		s.reqs = append(s.reqs, rec)
		simrt.Note("http %d %s %s -> %d fault=%s", n, req.Method, req.URL.RequestURI(), sr.status, fault)
	}
	if fault == "status-500" || fault == "status-429" {
		resp := &http.Response{StatusCode: sr.status, Status: fmt.Sprintf("%d %s", sr.status, http.StatusText(sr.status)), Header: sr.header, Request: req, Proto: "HTTP/1.1", ProtoMajor: 1, ProtoMinor: 1,
			Body: io.NopCloser(bytes.NewReader(sr.body)), ContentLength: int64(len(sr.body))}
		return resp, nil
	}
	switch fault {
	case "drop-after-apply":
		// the registry applied the request; the answer is lost
		return nil, errors.New("simregistry: connection reset by peer (injected, after the request was applied)")
	case "digest-header":
		sr.header.Set("Docker-Content-Digest", digest.FromString("corrupted-"+strconv.Itoa(n)).String())
	case "content-length":
		sr.length += 7
		if !sr.head {
			sr.body = append(append([]byte{}, sr.body...), []byte("PADDING")...)
		}
	case "content-type":
		sr.header.Set("Content-Type", "application/x-corrupted")
	case "truncate-body":
		if len(sr.body) > 0 {
			sr.body = sr.body[:len(sr.body)/2]
			// headers keep announcing the full length
			sr.noLen = false
		}
	case "flip-body":
		if len(sr.body) > 0 {
			sr.body = append([]byte{}, sr.body...)
			sr.body[len(sr.body)/2] ^= 0x20
		}
	}
	resp := &http.Response{StatusCode: sr.status, Status: fmt.Sprintf("%d %s", sr.status, http.StatusText(sr.status)), Header: sr.header, Request: req, Proto: "HTTP/1.1", ProtoMajor: 1, ProtoMinor: 1}
	cnt := new(int)
	s.BodyRead[n] = cnt
	if sr.head || req.Method == http.MethodHead {
		resp.Body = http.NoBody
		resp.ContentLength = sr.length
	} else {
		left := -1
		if n%2 == 0 && len(sr.body) > 0 {
			left = len(sr.body) // every other answer ends the way a body of known length does
		}
		resp.Body = &countingBody{Reader: bytes.NewReader(sr.body), n: cnt, left: left}
		resp.ContentLength = int64(len(sr.body))
		if fault == "truncate-body" {
			resp.ContentLength = sr.length
		}
		if fault == "content-length" {
			resp.ContentLength = sr.length
		}
		if sr.noLen && fault != "content-length" && fault != "truncate-body" {
			resp.ContentLength = -1
		}
	}
	if resp.ContentLength >= 0 {
		resp.Header.Set("Content-Length", strconv.FormatInt(resp.ContentLength, 10))
	}
	return resp, nil
}

func (s *SimRegistry) route(req *http.Request, body []byte, rec *ReqRecord) simResp {
	p := req.URL.Path
	q := req.URL.Query()
	h := http.Header{}
	n := rec.N
	plain := func(status int, b []byte) simResp {
		if len(b) > 0 {
			h.Set("Content-Type", "application/json")
		}
		return simResp{status: status, header: h, body: b, length: int64(len(b))}
	}
	onlyParams := func(allowed ...string) {
		for k := range q {
			ok := false
			for _, a := range allowed {
				if a == k {
					ok = true
				}
			}
			if k == "next_page" && s.issuedTokens[q.Get(k)] {
				ok = true // the registry's own continuation token, taken from its Link header
			}
			if !ok {
				s.invalid("request %d %s %s: query parameter %q is not defined for this endpoint", n, req.Method, p, k)
			}
		}
	}
	serveBlob := func(b []byte, d digest.Digest) simResp {
		h.Set("Content-Type", "application/octet-stream")
		if s.Profile.DigestHeader {
			h.Set("Docker-Content-Digest", d.String())
		}
		if s.Profile.Range {
			h.Set("Accept-Ranges", "bytes")
			if rg := req.Header.Get("Range"); rg != "" && req.Method == http.MethodGet {
				var a, z int
				if _, err := fmt.Sscanf(rg, "bytes=%d-%d", &a, &z); err != nil || a < 0 || z < a || a >= len(b) {
					s.invalid("request %d: unsatisfiable or malformed Range %q for a blob of %d bytes", n, rg, len(b))
					return plain(416, nil)
				}
				if z >= len(b) {
					z = len(b) - 1
				}
				h.Set("Content-Range", fmt.Sprintf("bytes %d-%d/%d", a, z, len(b)))
				return simResp{status: 206, header: h, body: b[a : z+1], length: int64(z + 1 - a)}
			}
		}
		return simResp{status: 200, header: h, body: b, length: int64(len(b)), noLen: s.Profile.NoContentLength && req.Method == http.MethodGet}
	}
	if req.URL.Host == simStorageHost {
		// the object store behind the registry: every URL it handed out serves one request
		rec.Class = "blob-storage"
		sb, ok := s.storageTokens[p]
		if !ok {
			s.StorageRefused++
			return plain(403, nil)
		}
		delete(s.storageTokens, p)
		return serveBlob(sb.data, sb.dgst)
	}
	if !strings.HasPrefix(p, "/v2/") {
		s.invalid("request %d %s %s: path outside /v2/", n, req.Method, p)
		return plain(404, nil)
	}
	rest := strings.TrimPrefix(p, "/v2/")
	switch {
	case rest == "":
		rec.Class = "ping"
		return plain(200, []byte("{}"))
	case rest == "_catalog":
		rec.Class = "catalog"
		if req.Method != http.MethodGet {
			s.invalid("request %d: %s not allowed on _catalog", n, req.Method)
		}
		onlyParams("n", "last")
		var names []string
		for name := range s.repos {
			names = append(names, name)
		}
		sort.Strings(names)
		return s.listing(req, h, "repositories", names, s.Profile.CatalogCap, rec)
	}
	cut := func(marker string) (name, tail string, ok bool) {
		i := strings.LastIndex(rest, marker)
		if i < 0 {
			return "", "", false
		}
		return rest[:i], rest[i+len(marker):], true
	}
	checkName := func(name string) *regRepo {
		rec.Repo = name
		if !nameRe.MatchString(name) {
			s.invalid("request %d %s %s: repository name %q is not valid", n, req.Method, p, name)
		}
		if len(s.Known) > 0 && !s.Known[name] {
			s.invalid("request %d %s %s: unexpected repository %q (extra path segment?)", n, req.Method, p, name)
		}
		return s.repo(name)
	}
	if name, tail, ok := cut("/tags/list"); ok && tail == "" {
		rec.Class = "tags"
		r := checkName(name)
		if req.Method != http.MethodGet {
			s.invalid("request %d: %s not allowed on tags/list", n, req.Method)
		}
		onlyParams("n", "last")
		var tags []string
		for t := range r.tags {
			tags = append(tags, t)
		}
		sort.Strings(tags)
		return s.listing(req, h, "tags", tags, s.Profile.TagCap, rec)
	}
	if name, tail, ok := cut("/blobs/uploads/"); ok {
		r := checkName(name)
		if tail == "" {
			rec.Class = "upload-start"
			if req.Method != http.MethodPost {
				s.invalid("request %d: %s not allowed on blobs/uploads/", n, req.Method)
				return plain(405, nil)
			}
			onlyParams("mount", "from")
			if (q.Get("mount") == "") != (q.Get("from") == "") && q.Has("from") {
				s.invalid("request %d: 'from' without 'mount'", n)
			}
			if m := q.Get("mount"); m != "" {
				d, err := digest.Parse(m)
				if err != nil {
					s.invalid("request %d: mount=%q is not a digest", n, m)
				} else if s.Profile.MountDeny != "" && q.Get("from") == s.Profile.MountDeny {
					// the client may not read the repository it names as source
					s.MountDenied++
					return plain(403, nil)
				} else if s.Profile.MountOK {
					if from := s.repos[q.Get("from")]; from != nil {
						if b, ok := from.blobs[d]; ok {
							r.blobs[d] = b
							h.Set("Location", "/v2/"+name+"/blobs/"+d.String())
							if s.Profile.DigestHeader {
								h.Set("Docker-Content-Digest", d.String())
							}
							return simResp{status: 201, header: h}
						}
					}
				}
			}
			s.uploadSeq++
			id := fmt.Sprintf("upload-%d", s.uploadSeq)
			r.uploads[id] = true
			loc := "/v2/" + name + "/blobs/uploads/" + id
			switch s.Profile.Location {
			case "absolute":
				loc = req.URL.Scheme + "://" + req.URL.Host + loc
			case "query":
				loc += "?_state=opaque-" + id
			}
			h.Set("Location", loc)
			h.Set("Range", "0-0")
			return simResp{status: 202, header: h}
		}
		rec.Class = "upload-put"
		if strings.Contains(tail, "/") {
			s.invalid("request %d %s %s: extra path segment after the upload id", n, req.Method, p)
		}
		if req.Method != http.MethodPut {
			s.invalid("request %d: %s on an upload session (only monolithic PUT is expected)", n, req.Method)
			return plain(405, nil)
		}
		if s.Profile.Location == "query" {
			onlyParams("digest", "_state")
			if q.Get("_state") != "opaque-"+tail {
				s.invalid("request %d: upload PUT lost the query parameter carried by the server-issued Location", n)
			}
		} else {
			onlyParams("digest")
		}
		if !r.uploads[tail] {
			return plain(404, errBody("BLOB_UPLOAD_UNKNOWN", "unknown upload"))
		}
		ds := q.Get("digest")
		if ds == "" {
			s.invalid("request %d: upload completion without digest parameter", n)
			return plain(400, errBody("DIGEST_INVALID", "missing digest"))
		}
		d, err := digest.Parse(ds)
		if err != nil || d.Algorithm().FromBytes(body) != d {
			return plain(400, errBody("DIGEST_INVALID", "digest mismatch"))
		}
		delete(r.uploads, tail)
		r.blobs[d] = body
		h.Set("Location", "/v2/"+name+"/blobs/"+d.String())
		if s.Profile.DigestHeader {
			h.Set("Docker-Content-Digest", d.String())
		}
		return simResp{status: 201, header: h}
	}
	if name, tail, ok := cut("/blobs/"); ok {
		rec.Class = "blob"
		rec.Ref = tail
		r := checkName(name)
		onlyParams()
		d, err := digest.Parse(tail)
		if err != nil {
			s.invalid("request %d %s %s: blob reference %q is not a digest", n, req.Method, p, tail)
			return plain(404, errBody("DIGEST_INVALID", "bad digest"))
		}
		b, ok := r.blobs[d]
		switch req.Method {
		case http.MethodGet, http.MethodHead:
			if !ok {
				return plain(404, errBody("BLOB_UNKNOWN", "blob unknown"))
			}
			if s.Profile.BlobRedirect && req.Method == http.MethodGet {
				if s.storageTokens == nil {
					s.storageTokens = map[string]storedBlob{}
				}
				s.storageSeq++
				path := fmt.Sprintf("/data/signed-%d", s.storageSeq)
				s.storageTokens[path] = storedBlob{data: b, dgst: d}
				h.Set("Location", "https://"+simStorageHost+path)
				return simResp{status: 307, header: h}
			}
			return serveBlob(b, d)
		case http.MethodDelete:
			if !ok {
				return plain(404, errBody("BLOB_UNKNOWN", "blob unknown"))
			}
			delete(r.blobs, d)
			if s.Profile.DigestHeader {
				h.Set("Docker-Content-Digest", d.String())
			}
			return simResp{status: 202, header: h}
		}
		s.invalid("request %d: %s not allowed on a blob", n, req.Method)
		return plain(405, nil)
	}
	if name, tail, ok := cut("/manifests/"); ok {
		rec.Class = "manifest"
		rec.Ref = tail
		r := checkName(name)
		onlyParams()
		var d digest.Digest
		isDigest := false
		if pd, err := digest.Parse(tail); err == nil {
			d, isDigest = pd, true
		} else if !tagRe.MatchString(tail) {
			s.invalid("request %d %s %s: manifest reference %q is neither a tag nor a digest", n, req.Method, p, tail)
			return plain(404, errBody("MANIFEST_UNKNOWN", "bad reference"))
		} else if td, ok := r.tags[tail]; ok {
			d = td
		}
		switch req.Method {
		case http.MethodGet, http.MethodHead:
			m := r.manifests[d]
			if m == nil {
				return plain(404, errBody("MANIFEST_UNKNOWN", "manifest unknown"))
			}
			if acc := req.Header.Values("Accept"); len(acc) > 0 {
				okAcc := false
				for _, a := range acc {
					for _, part := range strings.Split(a, ",") {
						part = strings.TrimSpace(strings.SplitN(part, ";", 2)[0])
						if part == m.MediaType || part == "*/*" {
							okAcc = true
						}
					}
				}
				if !okAcc {
					return plain(404, errBody("MANIFEST_UNKNOWN", "no acceptable media type"))
				}
			}
			h.Set("Content-Type", m.MediaType)
			if s.Profile.DigestHeader {
				h.Set("Docker-Content-Digest", d.String())
			}
			return simResp{status: 200, header: h, body: m.Data, length: int64(len(m.Data)), noLen: s.Profile.NoContentLength && req.Method == http.MethodGet}
		case http.MethodPut:
			ct := req.Header.Get("Content-Type")
			if ct == "" {
				s.invalid("request %d: manifest PUT without Content-Type", n)
			}
			bd := digest.FromBytes(body)
			if isDigest && bd != d {
				return plain(400, errBody("DIGEST_INVALID", "digest mismatch"))
			}
			var doc struct {
				MediaType string              `json:"mediaType"`
				Subject   *ocispec.Descriptor `json:"subject"`
			}
			if err := json.Unmarshal(body, &doc); err != nil {
				return plain(400, errBody("MANIFEST_INVALID", "not JSON"))
			}
			if doc.MediaType != "" && doc.MediaType != ct {
				return plain(400, errBody("MANIFEST_INVALID", "media type mismatch"))
			}
			if _, ok := r.manifests[bd]; !ok {
				r.order = append(r.order, bd)
			}
			r.manifests[bd] = &regManifest{MediaType: ct, Data: body}
			if !isDigest {
				r.tags[tail] = bd
			}
			h.Set("Location", "/v2/"+name+"/manifests/"+bd.String())
			if s.Profile.DigestHeader {
				h.Set("Docker-Content-Digest", bd.String())
			}
			if doc.Subject != nil && ((s.Profile.ReferrersAPI && s.Profile.OCISubject) || s.AlwaysOCISubject) {
				h.Set("OCI-Subject", doc.Subject.Digest.String())
			}
			return simResp{status: 201, header: h}
		case http.MethodDelete:
			if !isDigest {
				if _, ok := r.tags[tail]; !ok {
					return plain(404, errBody("MANIFEST_UNKNOWN", "unknown tag"))
				}
				delete(r.tags, tail)
				return simResp{status: 202, header: h}
			}
			if r.manifests[d] == nil {
				return plain(404, errBody("MANIFEST_UNKNOWN", "manifest unknown"))
			}
			delete(r.manifests, d)
			for i, od := range r.order {
				if od == d {
					r.order = append(r.order[:i:i], r.order[i+1:]...)
					break
				}
			}
			for t, td := range r.tags {
				if td == d {
					delete(r.tags, t)
				}
			}
			if s.Profile.DigestHeader {
				h.Set("Docker-Content-Digest", d.String())
			}
			return simResp{status: 202, header: h}
		}
		s.invalid("request %d: %s not allowed on a manifest", n, req.Method)
		return plain(405, nil)
	}
	if name, tail, ok := cut("/referrers/"); ok {
		rec.Class = "referrers"
		rec.Ref = tail
		r := checkName(name)
		if req.Method != http.MethodGet {
			s.invalid("request %d: %s not allowed on referrers", n, req.Method)
		}
		onlyParams("artifactType", "n", "last")
		d, err := digest.Parse(tail)
		if err != nil {
			s.invalid("request %d %s %s: referrers reference %q is not a digest", n, req.Method, p, tail)
			return plain(400, nil)
		}
		if !s.Profile.ReferrersAPI {
			return plain(404, []byte("404 page not found\n"))
		}
		refs := s.referrersOf(r, d)
		filtered := false
		if at := q.Get("artifactType"); at != "" && s.Profile.ServerFilter != "" {
			var out []ocispec.Descriptor
			for _, x := range refs {
				if x.ArtifactType == at {
					out = append(out, x)
				}
			}
			refs, filtered = out, true
		}
		return s.referrersListing(req, h, refs, filtered, rec)
	}
	s.invalid("request %d %s %s: path matches no endpoint of the distribution specification", n, req.Method, p)
	return plain(404, nil)
}

func pageOf(items int, req *http.Request, cap int, lastIndex func(last string) int) (from, to int) {
	q := req.URL.Query()
	from = 0
	if l := q.Get("last"); l != "" {
		from = lastIndex(l)
	} else if t := q.Get("next_page"); strings.HasPrefix(t, "p") {
		// opaque continuation issued by linkHeader forms 6 and 7
		if v, err := strconv.Atoi(t[1:]); err == nil && v >= 0 {
			from = v
		}
	}
	size := items
	if ns := q.Get("n"); ns != "" {
		if v, err := strconv.Atoi(ns); err == nil && v >= 0 {
			size = v
		}
	}
	if cap > 0 && size > cap {
		size = cap
	}
	to = from + size
	if to > items {
		to = items
	}
	if from > items {
		from = items
	}
	return
}

func (s *SimRegistry) linkHeader(h http.Header, req *http.Request, last string, n string, to int) {
	u := *req.URL
	q := url.Values{}
	for k, v := range req.URL.Query() {
		if k != "last" && k != "n" && k != "next_page" {
			q[k] = v
		}
	}
	if n != "" {
		q.Set("n", n)
	}
	if f := s.Profile.LinkForm % 8; f >= 6 {
		// a continuation the client cannot interpret: the position travels in a token, not in "last"
		q.Set("next_page", "p"+strconv.Itoa(to))
		if s.issuedTokens == nil {
			s.issuedTokens = map[string]bool{}
		}
		s.issuedTokens["p"+strconv.Itoa(to)] = true
	} else {
		q.Set("last", last)
	}
	u.RawQuery = q.Encode()
	rel := u.Path + "?" + u.RawQuery
	abs := u.Scheme + "://" + u.Host + rel
	switch s.Profile.LinkForm % 8 {
	case 0, 6:
		h.Set("Link", "<"+rel+`>; rel="next"`)
	case 1, 7:
		h.Set("Link", "<"+abs+`>; rel="next"`)
	case 2:
		h.Set("Link", "<"+rel+">; rel=next")
	case 3:
		h.Set("Link", "<"+rel+`>;   rel="next";  title="more"`)
	case 4:
		h.Set("Link", "<"+abs+`>; title="x"; rel="next"`)
	default:
		h.Set("Link", "<"+rel+`>;rel="next"`)
	}
}

func (s *SimRegistry) listing(req *http.Request, h http.Header, key string, items []string, cap int, rec *ReqRecord) simResp {
	from, to := pageOf(len(items), req, cap, func(last string) int {
		return sort.SearchStrings(items, last+"\x00")
	})
	page := items[from:to]
	if page == nil {
		page = []string{}
	}
	doc := map[string]any{key: page}
	if key == "tags" {
		doc["name"] = rec.Repo
	}
	if s.PadBody > 0 {
		doc["x-padding"] = strings.Repeat("p", s.PadBody)
	}
	b, _ := json.Marshal(doc)
	h.Set("Content-Type", "application/json")
	if to < len(items) && len(page) > 0 {
		s.linkHeader(h, req, page[len(page)-1], req.URL.Query().Get("n"), to)
	}
	if s.ListHook != nil {
		s.ListHook(key, page)
	}
	return simResp{status: 200, header: h, body: b, length: int64(len(b)), noLen: s.Profile.NoContentLength}
}

func (s *SimRegistry) referrersListing(req *http.Request, h http.Header, refs []ocispec.Descriptor, filtered bool, rec *ReqRecord) simResp {
	from, to := pageOf(len(refs), req, s.Profile.RefCap, func(last string) int {
		for i, r := range refs {
			if r.Digest.String() == last {
				return i + 1
			}
		}
		return len(refs)
	})
	page := refs[from:to]
	if page == nil {
		page = []ocispec.Descriptor{}
	}
	idx := ocispec.Index{MediaType: mtOCIIndex, Manifests: page}
	idx.SchemaVersion = 2
	if filtered {
		if s.Profile.ServerFilter == "header" {
			h.Set("OCI-Filters-Applied", "artifactType")
		} else {
			idx.Annotations = map[string]string{"org.opencontainers.referrers.filtersApplied": "artifactType"}
		}
	}
	if s.PadBody > 0 {
		if idx.Annotations == nil {
			idx.Annotations = map[string]string{}
		}
		idx.Annotations["x-padding"] = strings.Repeat("p", s.PadBody)
	}
	b, _ := json.Marshal(idx)
	h.Set("Content-Type", mtOCIIndex)
	if to < len(refs) && len(page) > 0 {
		s.linkHeader(h, req, page[len(page)-1].Digest.String(), req.URL.Query().Get("n"), to)
		if !simrt.Observing() {
			s.PagedReferrers++
		}
	}
	if s.ListHook != nil {
		var ds []string
		for _, p := range page {
			ds = append(ds, p.Digest.String())
		}
		s.ListHook("referrers", ds)
	}
	return simResp{status: 200, header: h, body: b, length: int64(len(b)), noLen: s.Profile.NoContentLength}
}

// classifyPath names the endpoint class of a request path without touching state.
func classifyPath(p string) string {
	rest := strings.TrimPrefix(p, "/v2/")
	switch {
	case rest == "":
		return "ping"
	case rest == "_catalog":
		return "catalog"
	case strings.HasSuffix(rest, "/tags/list"):
		return "tags"
	case strings.HasSuffix(rest, "/blobs/uploads/"):
		return "upload-start"
	case strings.Contains(rest, "/blobs/uploads/"):
		return "upload-put"
	case strings.Contains(rest, "/blobs/"):
		return "blob"
	case strings.Contains(rest, "/manifests/"):
		return "manifest"
	case strings.Contains(rest, "/referrers/"):
		return "referrers"
	}
	return ""
}
