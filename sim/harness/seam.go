package harness

import (
	"bytes"
	"context"
	"errors"
	"fmt"
	"io"
	"sort"
	"sync"
	"time"

	ocispec "github.com/opencontainers/image-spec/specs-go/v1"
	"oras.land/oras-go/v2/content"
	"oras.land/oras-go/v2/errdef"
	"oras.land/oras-go/v2/zsim/simrt"
)

func isAlreadyExists(err error) bool { return errors.Is(err, errdef.ErrAlreadyExists) }

var errInjected = errors.New("injected fault")

// FaultSpec places one fault: the Occur-th (1-based) invocation of Op on Node
// at store Store.
type FaultSpec struct {
	Store string `json:"store"` // src | dst | cb
	Op    string `json:"op"`    // Fetch Exists Push Predecessors Resolve Tag | PreCopy PostCopy OnCopySkipped ...
	Node  int    `json:"node"`  // node index, -1 = n/a
	Occur int    `json:"occur"`
	Kind  string `json:"kind"` // before | after | cancel
	// Wrap (callback faults): the error the callback returns also wraps this sentinel error of
	// the library (not-found, already-exists, unsupported, size-exceeds); "" = none
	Wrap string `json:"wrap,omitempty"`
}

func (f FaultSpec) key() string { return fmt.Sprintf("%s.%s.%d", f.Store, f.Op, f.Node) }

// Event is one entry of the recorded history.
type Event struct {
	Seq   int // scheduler step number at the time of the event
	Task  int
	Store string
	Op    string
	Node  int
	Phase string // invoke | return | close
	Err   bool
}

// Monitor records the history seen at the seams and injects faults.
type Monitor struct {
	mu       sync.Mutex
	g        *Graph
	events   []Event
	counts   map[string]int // invocations per (store,op,node)
	faults   []FaultSpec
	fired    []FaultSpec
	firedK   map[string]int
	cancel   context.CancelFunc
	Latency  map[string]time.Duration // per (store.op.node) simulated latency
	inflight map[string]int           // store -> current in-flight
	maxIn    map[string]int
	checks   []func(ev Event) *Verdict // invariants evaluated at events
	viol     *Verdict
	opsSeen  []FaultSpec // every (store,op,node,occur) that happened — the fault-placement menu
}

func NewMonitor(g *Graph) *Monitor {
	return &Monitor{g: g, counts: map[string]int{}, firedK: map[string]int{}, Latency: map[string]time.Duration{},
		inflight: map[string]int{}, maxIn: map[string]int{}}
}

func (m *Monitor) record(store, op string, node int, phase string, isErr bool) Event {
	ev := Event{Seq: simrt.Steps(), Task: simrt.TaskID(), Store: store, Op: op, Node: node, Phase: phase, Err: isErr}
	m.mu.Lock()
	m.events = append(m.events, ev)
	m.mu.Unlock()
	simrt.Note("ev %s %s n%d %s err=%v", store, op, node, phase, isErr)
	return ev
}

// enter is called at the start of a seam operation. It yields, records the
// invocation and returns the fault to apply, if any.
func (m *Monitor) enter(store, op string, node int) (kind string) {
	if simrt.Observing() {
		return ""
	}
	simrt.Yield(store + "." + op)
	m.mu.Lock()
	k := fmt.Sprintf("%s.%s.%d", store, op, node)
	m.counts[k]++
	occ := m.counts[k]
	m.opsSeen = append(m.opsSeen, FaultSpec{Store: store, Op: op, Node: node, Occur: occ})
	for _, f := range m.faults {
		if f.Store == store && f.Op == op && f.Node == node && f.Occur == occ {
			kind = f.Kind
			m.firedK[f.Kind]++
			if f.Kind == "raced" {
				continue // not a failure: another client stores the same content first
			}
			m.fired = append(m.fired, f)
		}
	}
	m.mu.Unlock()
	m.record(store, op, node, "invoke", false)
	if kind == "cancel" && m.cancel != nil {
		m.cancel()
	}
	return kind
}

func (m *Monitor) gaugeInc(store string) {
	m.mu.Lock()
	m.inflight[store]++
	if m.inflight[store] > m.maxIn[store] {
		m.maxIn[store] = m.inflight[store]
	}
	m.mu.Unlock()
}

func (m *Monitor) gaugeDec(store string) {
	m.mu.Lock()
	m.inflight[store]--
	m.mu.Unlock()
}

// leave is called at the end of a seam operation.
func (m *Monitor) leave(store, op string, node int, err error) {
	if simrt.Observing() {
		return
	}
	if d := m.Latency[fmt.Sprintf("%s.%s.%d", store, op, node)]; d > 0 {
		time.Sleep(d)
		simrt.Yield(store + "." + op + ".latency")
	}
	ev := m.record(store, op, node, "return", err != nil)
	for _, c := range m.checks {
		if v := c(ev); v != nil {
			m.mu.Lock()
			if m.viol == nil {
				m.viol = v
			}
			m.mu.Unlock()
		}
	}
}

func (m *Monitor) Events() []Event {
	m.mu.Lock()
	defer m.mu.Unlock()
	return append([]Event(nil), m.events...)
}

func (m *Monitor) count(store, op string, node int) int {
	m.mu.Lock()
	defer m.mu.Unlock()
	return m.counts[fmt.Sprintf("%s.%s.%d", store, op, node)]
}

// SimStore wraps a Target-like store with the monitor. It offers exactly
// Fetch/Exists/Push/Resolve/Tag/Predecessors; the inner store must support the
// ones that get called.
type SimStore struct {
	Name  string
	Inner any
	M     *Monitor
	// gauge: count in-flight operations for the concurrency bound
	Gauge bool
}

// breakingReader delivers left bytes and fails then.
type breakingReader struct {
	io.ReadCloser
	left int64
	err  error
}

func (b *breakingReader) Read(p []byte) (int, error) {
	if b.left <= 0 {
		return 0, b.err
	}
	if int64(len(p)) > b.left {
		p = p[:b.left]
	}
	n, err := b.ReadCloser.Read(p)
	b.left -= int64(n)
	return n, err
}

type trackedReader struct {
	io.ReadCloser
	s      *SimStore
	node   int
	closed bool
}

func (t *trackedReader) Close() error {
	err := t.ReadCloser.Close()
	if !t.closed {
		t.closed = true
		if !simrt.Observing() {
			if t.s.Gauge {
				t.s.M.gaugeDec(t.s.Name + ".read")
			}
			t.s.M.record(t.s.Name, "Fetch", t.node, "close", false)
		}
	}
	return err
}

func (s *SimStore) Fetch(ctx context.Context, d ocispec.Descriptor) (io.ReadCloser, error) {
	n := s.M.g.Lookup(d)
	obs := simrt.Observing()
	if !obs && s.Gauge {
		s.M.gaugeInc(s.Name + ".read")
		s.M.gaugeInc(s.Name + ".op")
		defer s.M.gaugeDec(s.Name + ".op")
	}
	k := s.M.enter(s.Name, "Fetch", n)
	if k == "before" {
		if !obs && s.Gauge {
			s.M.gaugeDec(s.Name + ".read")
		}
		s.M.leave(s.Name, "Fetch", n, errInjected)
		return nil, fmt.Errorf("%s fetch node %d: %w", s.Name, n, errInjected)
	}
	rc, err := s.Inner.(content.Fetcher).Fetch(ctx, d)
	if err == nil && (k == "after" || (k == "midread" && d.Size == 0)) {
		rc.Close()
		err = fmt.Errorf("%s fetch node %d (after effect): %w", s.Name, n, errInjected)
	}
	if err == nil && k == "midread" {
		// the call succeeds, the body breaks off half way with an error that is not EOF
		rc = &breakingReader{ReadCloser: rc, left: d.Size / 2, err: fmt.Errorf("%s read body of node %d: %w", s.Name, n, errInjected)}
	}
	s.M.leave(s.Name, "Fetch", n, err)
	if err != nil {
		if !obs && s.Gauge {
			s.M.gaugeDec(s.Name + ".read")
		}
		return nil, err
	}
	if obs {
		return rc, nil
	}
	return &trackedReader{ReadCloser: rc, s: s, node: n}, nil
}

func (s *SimStore) Exists(ctx context.Context, d ocispec.Descriptor) (bool, error) {
	n := s.M.g.Lookup(d)
	if !simrt.Observing() && s.Gauge {
		s.M.gaugeInc(s.Name + ".op")
		defer s.M.gaugeDec(s.Name + ".op")
	}
	k := s.M.enter(s.Name, "Exists", n)
	if k == "before" || k == "after" {
		s.M.leave(s.Name, "Exists", n, errInjected)
		return false, fmt.Errorf("%s exists node %d: %w", s.Name, n, errInjected)
	}
	ok, err := s.Inner.(content.ReadOnlyStorage).Exists(ctx, d)
	s.M.leave(s.Name, "Exists", n, err)
	return ok, err
}

func (s *SimStore) Push(ctx context.Context, d ocispec.Descriptor, r io.Reader) error {
	n := s.M.g.Lookup(d)
	if !simrt.Observing() && s.Gauge {
		s.M.gaugeInc(s.Name + ".op")
		defer s.M.gaugeDec(s.Name + ".op")
	}
	k := s.M.enter(s.Name, "Push", n)
	if k == "before" {
		s.M.leave(s.Name, "Push", n, errInjected)
		return fmt.Errorf("%s push node %d: %w", s.Name, n, errInjected)
	}
	if k == "raced" && n >= 0 {
		// another client of the destination stores the same content between this
		// copy's Exists probe and its Push: the Push below is refused as already existing
		simrt.Observe(func() {
			s.Inner.(content.Pusher).Push(ctx, d, bytes.NewReader(s.M.g.Nodes[n].Data))
		})
	}
	err := s.Inner.(content.Pusher).Push(ctx, d, r)
	if err == nil && k == "after" {
		// the content is stored, the caller is told it failed
		s.M.record(s.Name, "Push", n, "stored", false)
		err = fmt.Errorf("%s push node %d (after effect): %w", s.Name, n, errInjected)
		s.M.leaveNoCheck(s.Name, "Push", n, err)
		return err
	}
	s.M.leave(s.Name, "Push", n, err)
	return err
}

// leaveNoCheck records the return but treats the event as a failed push for
// the invariant checks (they look at Err).
func (m *Monitor) leaveNoCheck(store, op string, node int, err error) { m.leave(store, op, node, err) }

func (s *SimStore) Resolve(ctx context.Context, ref string) (ocispec.Descriptor, error) {
	k := s.M.enter(s.Name, "Resolve", -1)
	if k == "before" || k == "after" {
		s.M.leave(s.Name, "Resolve", -1, errInjected)
		return ocispec.Descriptor{}, fmt.Errorf("%s resolve: %w", s.Name, errInjected)
	}
	d, err := s.Inner.(content.Resolver).Resolve(ctx, ref)
	s.M.leave(s.Name, "Resolve", -1, err)
	return d, err
}

func (s *SimStore) Tag(ctx context.Context, d ocispec.Descriptor, ref string) error {
	n := s.M.g.Lookup(d)
	if !simrt.Observing() && s.Gauge {
		s.M.gaugeInc(s.Name + ".op")
		defer s.M.gaugeDec(s.Name + ".op")
	}
	k := s.M.enter(s.Name, "Tag", n)
	if k == "before" {
		s.M.leave(s.Name, "Tag", n, errInjected)
		return fmt.Errorf("%s tag: %w", s.Name, errInjected)
	}
	err := s.Inner.(content.Tagger).Tag(ctx, d, ref)
	if err == nil && k == "after" {
		err = fmt.Errorf("%s tag (after effect): %w", s.Name, errInjected)
	}
	s.M.leave(s.Name, "Tag", n, err)
	return err
}

func (s *SimStore) Predecessors(ctx context.Context, d ocispec.Descriptor) ([]ocispec.Descriptor, error) {
	n := s.M.g.Lookup(d)
	k := s.M.enter(s.Name, "Predecessors", n)
	if k == "before" || k == "after" {
		s.M.leave(s.Name, "Predecessors", n, errInjected)
		return nil, fmt.Errorf("%s predecessors: %w", s.Name, errInjected)
	}
	ds, err := s.Inner.(content.PredecessorFinder).Predecessors(ctx, d)
	s.M.leave(s.Name, "Predecessors", n, err)
	return ds, err
}

// StorageOnly hides everything but content.Storage (for CopyGraph targets that
// must not look like Targets) .
type StorageOnly struct{ S *SimStore }

func (s StorageOnly) Fetch(ctx context.Context, d ocispec.Descriptor) (io.ReadCloser, error) {
	return s.S.Fetch(ctx, d)
}
func (s StorageOnly) Exists(ctx context.Context, d ocispec.Descriptor) (bool, error) {
	return s.S.Exists(ctx, d)
}
func (s StorageOnly) Push(ctx context.Context, d ocispec.Descriptor, r io.Reader) error {
	return s.S.Push(ctx, d, r)
}

// callback records a callback invocation and applies a fault if placed there.
func (m *Monitor) callback(name string, node int) error {
	if d := m.Latency[fmt.Sprintf("cb.%s.%d", name, node)]; d > 0 && !simrt.Observing() {
		// the caller's hook is slow to be reached (its notification is recorded when it runs)
		time.Sleep(d)
		simrt.Yield("cb." + name + ".latency")
	}
	k := m.enter("cb", name, node)
	var err error
	if k == "before" || k == "after" {
		err = fmt.Errorf("callback %s node %d: %w", name, node, errInjected)
		m.mu.Lock()
		occ := m.counts[fmt.Sprintf("cb.%s.%d", name, node)]
		for _, f := range m.faults {
			if f.Store == "cb" && f.Op == name && f.Node == node && f.Occur == occ && f.Wrap != "" {
				if w, ok := callbackWraps[f.Wrap]; ok {
					err = fmt.Errorf("callback %s node %d: %w: %w", name, node, errInjected, w)
				}
			}
		}
		m.mu.Unlock()
	}
	m.leave("cb", name, node, err)
	return err
}

var callbackWraps = map[string]error{
	"not-found":      errdef.ErrNotFound,
	"already-exists": errdef.ErrAlreadyExists,
	"unsupported":    errdef.ErrUnsupported,
	"size-exceeds":   errdef.ErrSizeExceedsLimit,
}

func sortedFaults(fs []FaultSpec) []FaultSpec {
	out := append([]FaultSpec(nil), fs...)
	sort.Slice(out, func(i, j int) bool {
		if out[i].key() != out[j].key() {
			return out[i].key() < out[j].key()
		}
		return out[i].Occur < out[j].Occur
	})
	return out
}

// SimRemote wraps a remote repository: besides the plain store operations it
// exposes FetchReference, PushReference and Mount, which oras.Copy looks for.
type SimRemote struct {
	*SimStore
}

// Referrers makes the wrapper a registry.ReferrerLister, as remote.Repository is:
// the filters of ExtendedCopy take another path for such sources.
func (s *SimRemote) Referrers(ctx context.Context, d ocispec.Descriptor, artifactType string, fn func(referrers []ocispec.Descriptor) error) error {
	n := s.M.g.Lookup(d)
	k := s.M.enter(s.Name, "Predecessors", n)
	if k == "before" || k == "after" {
		s.M.leave(s.Name, "Predecessors", n, errInjected)
		return fmt.Errorf("%s referrers: %w", s.Name, errInjected)
	}
	err := s.Inner.(interface {
		Referrers(ctx context.Context, desc ocispec.Descriptor, artifactType string, fn func(referrers []ocispec.Descriptor) error) error
	}).Referrers(ctx, d, artifactType, fn)
	s.M.leave(s.Name, "Predecessors", n, err)
	return err
}

type remoteInner interface {
	FetchReference(ctx context.Context, reference string) (ocispec.Descriptor, io.ReadCloser, error)
	PushReference(ctx context.Context, expected ocispec.Descriptor, content io.Reader, reference string) error
	Mount(ctx context.Context, desc ocispec.Descriptor, fromRepo string, getContent func() (io.ReadCloser, error)) error
}

func (s *SimRemote) FetchReference(ctx context.Context, ref string) (ocispec.Descriptor, io.ReadCloser, error) {
	k := s.M.enter(s.Name, "FetchReference", -1)
	if k == "before" || k == "after" {
		s.M.leave(s.Name, "FetchReference", -1, errInjected)
		return ocispec.Descriptor{}, nil, fmt.Errorf("%s fetch reference: %w", s.Name, errInjected)
	}
	d, rc, err := s.Inner.(remoteInner).FetchReference(ctx, ref)
	s.M.leave(s.Name, "FetchReference", s.M.g.Lookup(d), err)
	return d, rc, err
}

func (s *SimRemote) PushReference(ctx context.Context, d ocispec.Descriptor, r io.Reader, ref string) error {
	n := s.M.g.Lookup(d)
	if !simrt.Observing() && s.Gauge {
		s.M.gaugeInc(s.Name + ".op")
		defer s.M.gaugeDec(s.Name + ".op")
	}
	k := s.M.enter(s.Name, "Push", n)
	if k == "before" {
		s.M.leave(s.Name, "Push", n, errInjected)
		return fmt.Errorf("%s push reference node %d: %w", s.Name, n, errInjected)
	}
	err := s.Inner.(remoteInner).PushReference(ctx, d, r, ref)
	if err == nil && k == "after" {
		err = fmt.Errorf("%s push reference node %d (after effect): %w", s.Name, n, errInjected)
	}
	s.M.leave(s.Name, "Push", n, err)
	return err
}

func (s *SimRemote) Mount(ctx context.Context, d ocispec.Descriptor, from string, getContent func() (io.ReadCloser, error)) error {
	n := s.M.g.Lookup(d)
	if !simrt.Observing() && s.Gauge {
		s.M.gaugeInc(s.Name + ".op")
		defer s.M.gaugeDec(s.Name + ".op")
	}
	k := s.M.enter(s.Name, "Mount", n)
	if k == "before" {
		s.M.leave(s.Name, "Mount", n, errInjected)
		return fmt.Errorf("%s mount node %d: %w", s.Name, n, errInjected)
	}
	err := s.Inner.(remoteInner).Mount(ctx, d, from, getContent)
	if k == "after" {
		// also when the inner call only reported "try the next candidate": the fault counts as fired
		err = fmt.Errorf("%s mount node %d (after effect): %w", s.Name, n, errInjected)
	}
	// a completed mount is a completed transfer: report it as a Push event too so
	// that the link-closure invariant and the accounting see it
	s.M.leave(s.Name, "Mount", n, err)
	if err == nil {
		s.M.leave(s.Name, "Push", n, nil)
	}
	return err
}
