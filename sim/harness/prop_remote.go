package harness

import (
	"bytes"
	"context"
	"encoding/json"
	"errors"
	"fmt"
	"io"
	"net/http"
	"sort"
	"strings"

	"github.com/opencontainers/go-digest"
	ocispec "github.com/opencontainers/image-spec/specs-go/v1"
	"oras.land/oras-go/v2/content"
	"oras.land/oras-go/v2/registry/remote"
	"oras.land/oras-go/v2/zsim/simrt"
)

type SeekStep struct {
	Seek   bool  `json:"seek,omitempty"`
	Off    int64 `json:"off,omitempty"`
	Whence int   `json:"whence,omitempty"`
	Read   int   `json:"read,omitempty"`
}

type RemoteOp struct {
	Op    string     `json:"op"` // push fetch readseek exists resolve resolvedigest tag pushref fetchref delete mount preds
	Node  int        `json:"node,omitempty"`
	Ref   string     `json:"ref,omitempty"`
	Steps []SeekStep `json:"steps,omitempty"`
	// Ref2 (fetchref): a second reference is fetched, read and closed while the body of the
	// first is still open and unread
	Ref2 string `json:"ref2,omitempty"`
	// Node2 (pushpair): pushed by a second task at the same time as Node
	Node2 int `json:"node2,omitempty"`
}

func (o RemoteOp) String() string {
	switch o.Op {
	case "pushpair":
		return fmt.Sprintf("push(n%d)||push(n%d)", o.Node, o.Node2)
	case "tag", "pushref":
		return fmt.Sprintf("%s(n%d,%q)", o.Op, o.Node, o.Ref)
	case "resolve", "fetchref":
		if o.Ref2 != "" {
			return fmt.Sprintf("%s(%q, meanwhile %q)", o.Op, o.Ref, o.Ref2)
		}
		return fmt.Sprintf("%s(%q)", o.Op, o.Ref)
	case "fetchrefdigest":
		return fmt.Sprintf("fetchrefdigest(%q@n%d)", o.Ref, o.Node)
	}
	return fmt.Sprintf("%s(n%d)", o.Op, o.Node)
}

type RemoteParams struct {
	Graph     GraphSpec  `json:"graph"`
	Profile   RegProfile `json:"profile"`
	Ops       []RemoteOp `json:"ops"`
	Preload   []int      `json:"preload,omitempty"`       // nodes stored in the repository beforehand
	PreOther  []int      `json:"preload_other,omitempty"` // blobs stored in the sibling repository (mount source)
	PlainHTTP bool       `json:"plain_http,omitempty"`
	// MMT: Repository.ManifestMediaTypes. When set, content of any other media type is
	// routed to the blob endpoints, manifests included.
	MMT []string `json:"manifest_media_types,omitempty"`
	// MMTEmpty: ManifestMediaTypes is an empty, non-nil list, which is documented to mean the defaults
	MMTEmpty bool      `json:"manifest_media_types_empty,omitempty"`
	SkipGC   bool      `json:"skip_referrers_gc,omitempty"`
	Fault    *NetFault `json:"fault,omitempty"`
	// FaultPick: when set (and Fault is nil) the fault is placed on the FaultPick-th exchange (modulo)
	// of a fault-free run of the same history, and Fault is filled in
	FaultPick []uint64 `json:"fault_pick,omitempty"`
	// FaultFrom: the exchange is picked among the manifest exchanges of the steps from this one on (0 = any exchange)
	FaultFrom int `json:"fault_from,omitempty"`
}

type remoteProp struct {
	// manifests whose push/delete was hit by a fault or failed: the registry may hold
	// them while the client-side referrers index does not (or the reverse)
	uncertain map[string]bool
}

func init() { register(&remoteProp{}) }

func (p *remoteProp) ID() string { return "C13" }

func (p *remoteProp) Rule() string {
	return "scenario = history of Repository operations (Push, Fetch, Read/Seek sequences, Exists, Resolve by tag/digest, Tag, PushReference, FetchReference, Delete, Mount, Predecessors) over a random DAG against one stateful simulated registry with a drawn capability profile (Referrers API, OCI-Subject, digest headers, Range, mount, Content-Length, Location form), optionally with one failed exchange or single-field corruption of a response, placed on an exchange the fault-free history performed; 8% are directed: a subject receives its referrers one after the other on a registry without the Referrers API and a manifest exchange of a later Push or Delete fails, after which the referrers stored before must still be listed; non-trivial = at least 3 operations changed or read registry state successfully, or a corruption fired; distinct = distinct (request trace hash, final registry state hash)"
}

func (p *remoteProp) Components() map[string][]string {
	return map[string][]string{
		"real":        {"remote.Repository / blobStore / manifestStore", "registry/remote/url.go, utils.go, manifest.go", "internal/httputil (range-based ReadSeekCloser)", "registry/remote/internal/errutil", "net/http.Client"},
		"substituted": {"sync primitives (scheduler-controlled)"},
		"stub":        {"simulated registry = reference model + request validator for the distribution specification (RoundTripper seam); response corruption injector"},
	}
}

func (p *remoteProp) Assumptions() []string {
	return []string{
		"the simulated registry's reading of the distribution specification; the validator is permissive wherever the spec is",
		"by-tag requests pin nothing: with a corrupted by-tag response only absence of panic and hang is judged",
		"Resolve/FetchReference by tag needs a digest header or a Content-Length by the client's documented design; their failure without them is accepted, a wrong answer is not",
		"histories are sequential (C14 covers concurrent use of one Repository)",
	}
}

// genReferrersUnderFault: a subject gets several referrers one after the other on a registry
// without the Referrers API; one manifest exchange of a later referrer's Push (or of a Delete)
// fails. The referrers whose operations completed before must still be listed.
func (p *remoteProp) genReferrersUnderFault(r *Rand) *RemoteParams {
	rp := &RemoteParams{}
	rp.Graph = *GenGraph(r, GraphOpts{MaxNodes: 10, Referrers: true, Fanout: true, OneDigest: true, NoTwins: true, NoForeign: true})
	g := rp.Graph.Build()
	refs := map[int][]int{}
	for _, n := range g.Nodes {
		if n.IsManif && n.Spec.Subject >= 0 {
			refs[n.Spec.Subject] = append(refs[n.Spec.Subject], n.ID)
		}
	}
	subj := -1
	for s := 0; s < len(g.Nodes); s++ {
		if len(refs[s]) >= 2 && (subj < 0 || r.Bool()) {
			subj = s
		}
	}
	if subj < 0 {
		return nil
	}
	rp.Profile = RegProfile{DigestHeader: true, Range: r.Bool(), MountOK: r.Bool(), Location: pick(r, []string{"relative", "absolute", "query"})}
	rp.PlainHTTP = r.Bool()
	rp.SkipGC = r.Chance(0.3)
	second := refs[subj][1]
	pairWith := -1
	if len(refs[subj]) >= 3 && r.Bool() {
		pairWith = refs[subj][2] // the second and third referrer are pushed at the same time
	}
	for i := range g.Nodes {
		if i == second {
			rp.FaultFrom = len(rp.Ops)
		}
		if i == pairWith {
			continue
		}
		if i == second && pairWith >= 0 && pairReady(g, pairWith, second) {
			rp.Ops = append(rp.Ops, RemoteOp{Op: "pushpair", Node: second, Node2: pairWith})
			continue
		} else if i == second {
			pairWith = -1
		}
		rp.Ops = append(rp.Ops, RemoteOp{Op: "push", Node: i})
		if i >= second && r.Chance(0.3) {
			rp.Ops = append(rp.Ops, RemoteOp{Op: "preds", Node: subj})
		}
	}
	if r.Bool() {
		rp.Ops = append(rp.Ops, RemoteOp{Op: "delete", Node: pick(r, refs[subj])})
	}
	rp.Ops = append(rp.Ops, RemoteOp{Op: "preds", Node: subj})
	rp.FaultPick = []uint64{r.U64(), r.U64()}
	return rp
}

// pairReady: everything node b links to has an index below a (it is pushed before the pair).
func pairReady(g *Graph, b, a int) bool {
	for _, c := range g.Nodes[b].Succ {
		if c >= a {
			return false
		}
	}
	return true
}

func (p *remoteProp) Gen(r *Rand, tier string, idx int) any {
	if r.Chance(0.08) {
		if rp := p.genReferrersUnderFault(r); rp != nil {
			return rp
		}
	}
	rp := &RemoteParams{}
	rp.Graph = *GenGraph(r, GraphOpts{MaxNodes: 10, Referrers: true, OneDigest: true, NoTwins: true, NoForeign: true, SHA512: true})
	g := rp.Graph.Build()
	nn := len(g.Nodes)
	rp.Profile = RegProfile{ReferrersAPI: r.Bool(), DigestHeader: r.Chance(0.7), Range: r.Bool(), MountOK: r.Bool(), NoContentLength: r.Chance(0.25),
		Location: pick(r, []string{"relative", "absolute", "query"})}
	// distribution-spec 1.1: a registry with the Referrers API MUST answer a manifest
	// PUT that carries a subject with OCI-Subject; the client relies on that
	rp.Profile.OCISubject = rp.Profile.ReferrersAPI
	if !rp.Profile.ReferrersAPI && rp.Profile.NoContentLength {
		// the tag-schema fallback fetches the referrers index by tag, which needs a
		// digest header or a Content-Length (documented client requirement)
		rp.Profile.DigestHeader = true
	}
	rp.PlainHTTP = r.Bool()
	rp.Profile.BlobRedirect = r.Chance(0.2)
	if r.Chance(0.08) {
		rp.MMTEmpty = true
	} else if r.Chance(0.2) {
		// every set contains the OCI index type: the referrers tag schema stores its
		// indexes under it, and a client that does not accept it cannot read them back
		rp.MMT = pick(r, [][]string{
			{mtOCIManifest, mtOCIIndex},
			{mtOCIManifest, mtOCIIndex, mtArtifact},
			{mtOCIIndex, mtDockerManifest, mtDockerList},
			{mtOCIIndex, mtOCIManifest, mtDockerManifest},
		})
	}
	rp.SkipGC = r.Chance(0.3)
	for i, n := range g.Nodes {
		hasSubject := n.IsManif && n.Spec.Subject >= 0
		if r.Chance(0.35) && (rp.Profile.ReferrersAPI || !hasSubject) {
			rp.Preload = append(rp.Preload, i)
		}
		if !n.IsManif && r.Chance(0.4) {
			rp.PreOther = append(rp.PreOther, i)
		}
	}
	tags := []string{"v1", "latest", "rel-1.0", "Tag_2"}
	nops := r.Range(4, 25)
	pushed := 0
	for len(rp.Ops) < nops {
		var op RemoteOp
		switch x := r.Intn(20); {
		case x < 6 && pushed < nn:
			op = RemoteOp{Op: "push", Node: pushed}
			pushed++
		case x < 8:
			op = RemoteOp{Op: "fetch", Node: r.Intn(nn)}
		case x < 10:
			op = RemoteOp{Op: "readseek", Node: r.Intn(nn)}
			if r.Chance(0.3) {
				op.Ref = "@blobs"
			}
			k := r.Range(1, 6)
			size := int64(len(g.Nodes[op.Node].Data))
			for j := 0; j < k; j++ {
				if r.Bool() {
					op.Steps = append(op.Steps, SeekStep{Read: r.Range(0, int(size)+3)})
				} else {
					wh := r.Intn(3)
					var off int64
					switch wh {
					case 0:
						off = int64(r.Intn(int(size) + 3))
					case 1:
						off = int64(r.Intn(7)) - 3
					default:
						off = -int64(r.Intn(int(size) + 2))
					}
					op.Steps = append(op.Steps, SeekStep{Seek: true, Off: off, Whence: wh})
					if r.Chance(0.4) && wh != 1 {
						op.Steps = append(op.Steps, SeekStep{Seek: true, Off: off, Whence: wh}) // the same seek again (a retry)
					}
				}
			}
		case x < 11:
			op = RemoteOp{Op: "exists", Node: r.Intn(nn)}
		case x < 12:
			op = RemoteOp{Op: "resolve", Ref: pick(r, tags)}
		case x < 13:
			op = RemoteOp{Op: "resolvedigest", Node: r.Intn(nn)}
		case x < 15:
			op = RemoteOp{Op: "tag", Node: r.Intn(nn), Ref: pick(r, tags)}
		case x < 16:
			op = RemoteOp{Op: "pushref", Node: r.Intn(nn), Ref: pick(r, tags)}
			if !g.Nodes[op.Node].IsManif {
				op.Op = "push" // PushReference is defined for manifests
			}
		case x < 17:
			op = RemoteOp{Op: "fetchref", Ref: pick(r, tags)}
			if r.Chance(0.3) {
				op.Ref2 = pick(r, tags)
			}
			if r.Chance(0.4) {
				// digest-form reference (plain digest, or tag@digest)
				op = RemoteOp{Op: "fetchrefdigest", Node: r.Intn(nn)}
				if r.Bool() {
					op.Ref = pick(r, tags)
				}
			}
		case x < 18:
			op = RemoteOp{Op: "delete", Node: r.Intn(nn)}
		case x < 19:
			op = RemoteOp{Op: "mount", Node: r.Intn(nn)}
		default:
			op = RemoteOp{Op: "preds", Node: r.Intn(nn)}
		}
		rp.Ops = append(rp.Ops, op)
	}
	if r.Chance(0.45) {
		rp.FaultPick = []uint64{r.U64(), r.U64()}
	}
	return rp
}

func (p *remoteProp) Shrink(raw json.RawMessage) []json.RawMessage {
	var rp RemoteParams
	if json.Unmarshal(raw, &rp) != nil {
		return nil
	}
	var out []json.RawMessage
	for chunk := len(rp.Ops) / 2; chunk >= 1; chunk /= 2 {
		for start := len(rp.Ops) - chunk; start >= 0; start -= chunk {
			c := rp
			c.Ops = append(append([]RemoteOp{}, rp.Ops[:start]...), rp.Ops[start+chunk:]...)
			b, _ := json.Marshal(c)
			out = append(out, b)
		}
		if chunk == 1 {
			break
		}
	}
	if len(rp.Preload) > 0 {
		c := rp
		c.Preload = nil
		b, _ := json.Marshal(c)
		out = append(out, b)
	}
	return out
}

const (
	simHost   = "registry.test"
	simRepo   = "lib/app"
	simOther  = "lib/other"
	simPrefix = simHost + "/" + simRepo
)

func (p *remoteProp) Run(rc *RunCtx, sc *Scenario) *RunInfo {
	info := newInfo()
	var rp RemoteParams
	if err := json.Unmarshal(sc.Params, &rp); err != nil {
		info.V = violation("harness", "", "bad params: %v", err)
		return info
	}
	var v *Verdict
	rc.Bubble(func() {
		if rp.Fault == nil && len(rp.FaultPick) == 2 {
			p.placeFault(rc, &rp)
			sc.Params, _ = json.Marshal(rp)
		}
		v = p.run(rc, &rp, info)
	})
	info.V = v
	return info
}

// placeFault runs the history fault-free on a scratch registry, picks one of the
// exchanges it performed and a fault kind that suits it.
// routeGraph applies Repository.ManifestMediaTypes to the universe: a manifest whose
// media type is not listed travels through the blob endpoints and is, for the registry
// and therefore for the oracle, a blob.
func routeGraph(g *Graph, mmt []string) {
	if len(mmt) == 0 {
		return
	}
	for _, n := range g.Nodes {
		listed := false
		for _, m := range mmt {
			if m == n.Desc.MediaType {
				listed = true
			}
		}
		if n.IsManif && !listed {
			n.IsManif = false
		}
	}
}

func (p *remoteProp) placeFault(rc *RunCtx, rp *RemoteParams) {
	g := rp.Graph.Build()
	routeGraph(g, rp.MMT)
	reg := NewSimRegistry(simHost, rp.Profile)
	reg.Known[simRepo], reg.Known[simOther] = true, true
	preloadRegistry(reg, g, simRepo, rp.Preload)
	preloadRegistry(reg, g, simOther, rp.PreOther)
	repo, err := remote.NewRepository(simPrefix)
	if err != nil {
		return
	}
	repo.Client = &http.Client{Transport: reg}
	repo.PlainHTTP, repo.SkipReferrersGC = rp.PlainHTTP, rp.SkipGC
	repo.ManifestMediaTypes = rp.MMT
	if rp.MMTEmpty {
		repo.ManifestMediaTypes = []string{}
	}
	scratch := &remoteProp{uncertain: map[string]bool{}}
	n := 0
	firstReq := 0 // number of the first request of step FaultFrom
	simrt.Run(rc.ScratchConfig(), func() {
		for i, op := range rp.Ops {
			if i == rp.FaultFrom {
				firstReq = len(reg.Requests())
			}
			scratch.step(context.Background(), &RunCtx{}, rp, g, reg, repo, i, op, &n, func() (bool, []ReqRecord) { return false, nil })
		}
	})
	all := reg.Requests()
	var reqs []ReqRecord
	for qi, rq := range all {
		if rp.FaultFrom > 0 && (qi < firstReq || rq.Class != "manifest") {
			continue
		}
		// the referrers endpoints are C14's and C15's subject; a failed or tampered capability probe
		// legitimately changes how the client behaves afterwards
		if rq.Class == "manifest" || rq.Class == "blob" || rq.Class == "upload-start" || rq.Class == "upload-put" {
			reqs = append(reqs, rq)
		} else if rq.Class == "referrers" && rp.FaultFrom == 0 {
			// ... but one that is plainly throttled says nothing about the capability: see the kinds below
			reqs = append(reqs, rq)
		}
	}
	lastPick = [2]uint64{rp.FaultPick[0], rp.FaultPick[1]}
	rp.FaultPick = nil
	if len(reqs) == 0 {
		return
	}
	k := int(rp0(rp, 0) % uint64(len(reqs)))
	rq := reqs[k]
	occur := 0
	for _, x := range all {
		if x.Class == rq.Class && x.Method == rq.Method {
			occur++
		}
		if x.N == rq.N {
			break
		}
	}
	kinds := []string{"status-500", "transport"}
	if rq.Status >= 200 && rq.Status <= 299 && (rq.Method == "GET" || rq.Method == "HEAD") {
		kinds = []string{"digest-header", "digest-header", "content-length", "content-type", "truncate-body", "flip-body", "flip-body", "status-500", "transport"}
	}
	if rq.Class == "referrers" {
		kinds = []string{"status-429"}
	}
	rp.Fault = &NetFault{Class: rq.Class, Method: rq.Method, Occur: occur, Kind: kinds[rp0(rp, 1)%uint64(len(kinds))]}
}

var lastPick [2]uint64

func rp0(rp *RemoteParams, i int) uint64 { return lastPick[i] }

func regHas(reg *SimRegistry, repo string, n *Node) bool {
	if n.IsManif {
		_, ok := reg.HasManifest(repo, n.Desc.Digest)
		return ok
	}
	_, ok := reg.HasBlob(repo, n.Desc.Digest)
	return ok
}

func preloadRegistry(reg *SimRegistry, g *Graph, repo string, ids []int) {
	for _, i := range ids {
		n := g.Nodes[i]
		if n.IsManif {
			reg.PutManifest(repo, n.Desc.MediaType, n.Data)
		} else {
			reg.PutBlob(repo, n.Data)
		}
	}
}

func regStateHash(reg *SimRegistry, repo string) uint64 {
	var parts []string
	for _, d := range reg.ManifestDigests(repo) {
		parts = append(parts, "m"+d.Encoded()[:10])
	}
	sort.Strings(parts)
	for _, t := range reg.Tags(repo) {
		d, _ := reg.TagOf(repo, t)
		parts = append(parts, t+"="+d.Encoded()[:10])
	}
	return strHash(strings.Join(parts, ","))
}

func (p *remoteProp) run(rc *RunCtx, rp *RemoteParams, info *RunInfo) *Verdict {
	ctx := context.Background()
	g := rp.Graph.Build()
	routeGraph(g, rp.MMT)
	reg := NewSimRegistry(simHost, rp.Profile)
	reg.Known[simRepo], reg.Known[simOther] = true, true
	preloadRegistry(reg, g, simRepo, rp.Preload)
	preloadRegistry(reg, g, simOther, rp.PreOther)
	if rp.Fault != nil {
		reg.SetFaults([]NetFault{*rp.Fault})
	}
	repo, err := remote.NewRepository(simPrefix)
	if err != nil {
		return violation("harness", "", "NewRepository: %v", err)
	}
	repo.Client = &http.Client{Transport: reg}
	repo.PlainHTTP = rp.PlainHTTP
	repo.SkipReferrersGC = rp.SkipGC
	repo.ManifestMediaTypes = rp.MMT
	if rp.MMTEmpty {
		repo.ManifestMediaTypes = []string{}
		info.Probes["manifest_media_types_empty_list"]++
	}
	if len(rp.MMT) > 0 {
		info.Probes["manifest_media_types_restricted"]++
	}

	var v *Verdict
	okOps := 0
	p.uncertain = map[string]bool{}
	res := simrt.Run(rc.NextConfig(), func() {
		for i, op := range rp.Ops {
			firedBefore := 0
			for _, c := range reg.Fired {
				firedBefore += c
			}
			reqBefore := len(reg.Requests())
			v = p.step(ctx, rc, rp, g, reg, repo, i, op, &okOps, func() (bool, []ReqRecord) {
				fired := 0
				for _, c := range reg.Fired {
					fired += c
				}
				all := reg.Requests()
				return fired > firedBefore, all[reqBefore:]
			})
			if v != nil {
				return
			}
			if len(reg.Invalid) > 0 {
				v = violation("non-conforming-request", "", "during step %d %s: %s\nhistory: %v", i, op, reg.Invalid[0], rp.Ops[:i+1])
				return
			}
		}
	})
	rc.Done(res)
	info.absorb(res)
	info.Outcome = string(res.Outcome)
	for k, c := range reg.Fired {
		info.Faults[k] += c
	}
	if res.Outcome != simrt.OK {
		return violation("hang-or-panic", "", "history did not finish: %s %s %s\n%s", res.Outcome, res.Detail, res.PanicValue, res.PanicStack)
	}
	if v != nil {
		return v
	}
	if okOps >= 3 || len(reg.Fired) > 0 {
		info.Nontrivial = true
	}
	info.StateHash = regStateHash(reg, simRepo)
	info.CaseHash = simrt.Mix(info.CaseHash, info.StateHash)
	info.Sample = map[string]any{"profile": rp.Profile, "ops": fmt.Sprint(rp.Ops), "fault": rp.Fault, "requests": len(reg.Requests())}
	return nil
}

// step executes one operation and judges it against the registry model.
func (p *remoteProp) step(ctx context.Context, rc *RunCtx, rp *RemoteParams, g *Graph, reg *SimRegistry, repo *remote.Repository, i int, op RemoteOp, okOps *int, after func() (bool, []ReqRecord)) *Verdict {
	var n *Node
	if op.Node >= 0 && op.Node < len(g.Nodes) {
		n = g.Nodes[op.Node]
	}
	hist := func() string { return fmt.Sprintf("history: %v (profile %+v)", rp.Ops[:i+1], rp.Profile) }
	viaBlobRef := op.Op == "readseek" && op.Ref == "@blobs" && n != nil && !n.IsManif
	invalidBefore := len(reg.Invalid)
	// model before
	present := n != nil && regHas(reg, simRepo, n)
	tagDigest, tagKnown := reg.TagOf(simRepo, op.Ref)
	tagNode := -1
	if tagKnown {
		tagNode = g.LookupDigest(tagDigest)
	}
	refsBefore := []ocispec.Descriptor(nil)
	if n != nil {
		refsBefore = reg.ReferrersModel(simRepo, n.Desc.Digest)
	}

	if op.Op == "pushref" && !n.IsManif {
		return nil
	}
	var err error
	var gotBytes []byte
	var gotDesc ocispec.Descriptor
	var gotBool bool
	var gotList []ocispec.Descriptor
	var seekViolation *Verdict
	var err2 error
	switch op.Op {
	case "push":
		err = repo.Push(ctx, n.Desc, bytes.NewReader(n.Data))
	case "pushpair":
		n2 := g.Nodes[op.Node2]
		done := make(chan struct{}, 2)
		simrt.Go(func() {
			defer func() { done <- struct{}{} }()
			err = repo.Push(ctx, n.Desc, bytes.NewReader(n.Data))
		})
		simrt.Go(func() {
			defer func() { done <- struct{}{} }()
			err2 = repo.Push(ctx, n2.Desc, bytes.NewReader(n2.Data))
		})
		for k := 0; k < 2; k++ {
			<-done
			simrt.Yield("join")
		}
	case "fetch":
		gotBytes, err = content.FetchAll(ctx, repo, n.Desc)
	case "readseek":
		var rc2 io.ReadCloser
		if op.Ref == "@blobs" && !n.IsManif {
			// the same content through the blob store's FetchReference (by digest string)
			_, rc2, err = repo.Blobs().FetchReference(ctx, n.Desc.Digest.String())
		} else {
			rc2, err = repo.Fetch(ctx, n.Desc)
		}
		if err == nil {
			seekViolation = p.readSeek(rc2, n, op, present, &err, func() string {
				if f, _ := after(); f && rp.Fault != nil {
					return rp.Fault.Kind
				}
				return ""
			})
			rc2.Close()
		}
	case "exists":
		gotBool, err = repo.Exists(ctx, n.Desc)
	case "resolve":
		gotDesc, err = repo.Resolve(ctx, op.Ref)
	case "resolvedigest":
		if n.IsManif {
			gotDesc, err = repo.Resolve(ctx, n.Desc.Digest.String())
		} else {
			gotDesc, err = repo.Blobs().Resolve(ctx, n.Desc.Digest.String())
		}
	case "tag":
		err = repo.Tag(ctx, n.Desc, op.Ref)
	case "pushref":
		err = repo.PushReference(ctx, n.Desc, bytes.NewReader(n.Data), op.Ref)
	case "fetchrefdigest":
		var rc2 io.ReadCloser
		ref := n.Desc.Digest.String()
		if op.Ref != "" {
			ref = op.Ref + "@" + ref
		}
		if n.IsManif {
			gotDesc, rc2, err = repo.FetchReference(ctx, ref)
		} else {
			gotDesc, rc2, err = repo.Blobs().(interface {
				FetchReference(ctx context.Context, reference string) (ocispec.Descriptor, io.ReadCloser, error)
			}).FetchReference(ctx, n.Desc.Digest.String())
		}
		if err == nil {
			gotBytes, err = content.ReadAll(rc2, gotDesc)
			rc2.Close()
		}
	case "fetchref":
		var rc2 io.ReadCloser
		gotDesc, rc2, err = repo.FetchReference(ctx, op.Ref)
		if err == nil && op.Ref2 != "" {
			// another fetch comes and goes before this body is read
			if d3, rc3, err3 := repo.FetchReference(ctx, op.Ref2); err3 == nil {
				content.ReadAll(rc3, d3)
				rc3.Close()
			}
		}
		if err == nil {
			gotBytes, err = content.ReadAll(rc2, gotDesc)
			rc2.Close()
		}
	case "delete":
		err = repo.Delete(ctx, n.Desc)
	case "mount":
		err = repo.Mount(ctx, n.Desc, simOther, nil)
	case "preds":
		gotList, err = repo.Predecessors(ctx, n.Desc)
	}
	fired, reqs := after()
	rc.Logf("step %d %s -> err=%v (%d requests, fault fired=%v)", i, op, err, len(reqs), fired)
	if n != nil && (fired || err != nil) && (op.Op == "push" || op.Op == "pushref" || op.Op == "delete") {
		p.uncertain[descKey(n.Desc)] = true
	}
	if op.Op == "pushpair" {
		// two pushes side by side. A plainly failed exchange may fail either or both of them; one
		// that reports success has stored its manifest and, on a registry without the Referrers
		// API, recorded it as referrer - the later Predecessors steps hold it to that.
		plain := !fired || (rp.Fault != nil && (rp.Fault.Kind == "status-500" || rp.Fault.Kind == "status-429" || rp.Fault.Kind == "transport"))
		for k, e := range []error{err, err2} {
			nk := n
			if k == 1 {
				nk = g.Nodes[op.Node2]
			}
			if e != nil || !plain {
				p.uncertain[descKey(nk.Desc)] = true
				if e != nil && !fired {
					return violation("unexpected-error", remoteErrSig(e), "step %d %s: push of n%d failed: %v\n%s", i, op, nk.ID, e, hist())
				}
				continue
			}
			if !regHas(reg, simRepo, nk) {
				return violation("push-not-applied", "", "step %d %s: push of n%d returned nil but the registry does not hold it\n%s", i, op, nk.ID, hist())
			}
			*okOps++
		}
		return nil
	}

	if viaBlobRef && fired && rp.Fault != nil && rp.Fault.Kind == "content-length" {
		// the caller named no size, so the client works with the announced one: positions
		// relative to the end and Range requests follow from it and are not judged
		reg.Invalid = reg.Invalid[:invalidBefore]
		return nil
	}
	if seekViolation != nil {
		seekViolation.Detail += "\n" + hist()
		return seekViolation
	}
	if fired && rp.Fault != nil && (rp.Fault.Kind == "status-500" || rp.Fault.Kind == "status-429" || rp.Fault.Kind == "transport") {
		// a plainly failed exchange: the operation may fail; nothing else is judged for this step
		return nil
	}
	if fired {
		// a tampered response reached this operation: if the tampered field is one
		// the request pins, the call must fail
		f := rp.Fault
		var rq *ReqRecord
		for k := range reqs {
			for _, fn := range reg.FaultReq {
				if reqs[k].N == fn {
					rq = &reqs[k]
				}
			}
		}
		pinned := false
		if rq != nil && rq.Status >= 200 && rq.Status <= 299 {
			_, derr := digest.Parse(rq.Ref)
			byDigest := (rq.Class == "manifest" || rq.Class == "blob") && derr == nil
			switch f.Kind {
			case "digest-header":
				// the statement speaks of calls that would otherwise return an inconsistent
				// descriptor or body: reads by digest. Acknowledgements of uploads, manifest
				// PUTs, deletes and mounts return neither and are not judged (the client
				// verifies some of them, which is fine either way).
				pinned = byDigest && (rq.Method == "GET" || rq.Method == "HEAD") && (op.Op == "fetch" || op.Op == "readseek" || op.Op == "exists" || op.Op == "resolvedigest" || op.Op == "fetchrefdigest")
				if (op.Op == "fetchrefdigest" || viaBlobRef) && rq.Method == "GET" && rp.Profile.NoContentLength {
					// without a Content-Length the descriptor is taken from a separate HEAD exchange and the
					// body is verified by the caller: nothing inconsistent is returned
					pinned = false
				}
			case "content-length":
				// pinned when the caller named the size: fetches by descriptor
				pinned = byDigest && rq.Method == "GET" && rq.Status == 200 && op.Op != "fetchrefdigest" && !viaBlobRef
				if viaBlobRef {
					// the caller named no size: the client takes the announced one, and a later Range
					// request computed from it is the registry's doing, not a malformed request
					reg.Invalid = reg.Invalid[:invalidBefore]
				}
			case "content-type":
				pinned = byDigest && rq.Class == "manifest" && rq.Method == "GET" && rq.Status == 200 && op.Op != "fetchrefdigest"
			case "truncate-body", "flip-body":
				pinned = (op.Op == "fetch" || op.Op == "fetchrefdigest") && byDigest && rq.Method == "GET" && rq.Status == 200 && rq.Ref == n.Desc.Digest.String() && len(n.Data) > 0
			}
		}
		if op.Op == "tag" && err == nil && n.IsManif && present && rq != nil && rq.Method == "GET" && (f.Kind == "flip-body" || f.Kind == "truncate-body") {
			// Tag reads the manifest back and stores it under the new name: when it reports
			// success the name must lead to the content of the descriptor it was given
			if d, ok := reg.TagOf(simRepo, op.Ref); ok && d != n.Desc.Digest {
				return violation("tag-set-to-other-content", "", "step %d %s returned nil but %q now names %s: the manifest read back for tagging (request %d, %s) was stored without being checked against the descriptor\n%s", i, op, op.Ref, d, rq.N, f.Kind, hist())
			}
		}
		if pinned && err == nil {
			sig := ""
			if rq.Status == 206 && f.Kind == "digest-header" {
				sig = "seek-range-response-digest-header-not-verified"
			}
			return violation("inconsistent-response-accepted", sig, "step %d %s returned nil although the %s of the response to request %d (%s %s, status %d) contradicted the request\n%s", i, op, f.Kind, rq.N, rq.Method, rq.URL, rq.Status, hist())
		}
		if pinned {
			*okOps++
		}
		// the registry state may or may not have changed; nothing else is judged for this step
		return nil
	}

	// fault-free step: equals the model
	switch op.Op {
	case "push", "pushref":
		if err != nil {
			if op.Op == "pushref" && !n.IsManif {
				return nil // PushReference of a non-manifest: the registry refuses the body as a manifest
			}
			return violation("unexpected-error", remoteErrSig(err), "step %d %s failed: %v\n%s", i, op, err, hist())
		}
		if op.Op == "pushref" && !n.IsManif {
			// stored as a "manifest" of that media type by a permissive registry; not judged
			return nil
		}
		if !regHas(reg, simRepo, n) {
			return violation("push-not-stored", "", "step %d %s returned nil but the registry does not hold the content\n%s", i, op, hist())
		}
		if op.Op == "pushref" {
			if d, ok := reg.TagOf(simRepo, op.Ref); !ok || d != n.Desc.Digest {
				return violation("tag-not-set", "", "step %d %s returned nil but the registry tag points to %v\n%s", i, op, d, hist())
			}
		}
		*okOps++
	case "fetch":
		if !present {
			if err == nil {
				return violation("fetched-absent-content", "", "step %d %s succeeded although the registry does not hold it\n%s", i, op, hist())
			}
			return nil
		}
		if err != nil {
			return violation("unexpected-error", remoteErrSig(err), "step %d %s failed: %v\n%s", i, op, err, hist())
		}
		if !bytes.Equal(gotBytes, n.Data) {
			return violation("wrong-bytes", "", "step %d %s returned other bytes than were pushed\n%s", i, op, hist())
		}
		*okOps++
	case "readseek":
		if seekViolation != nil {
			seekViolation.Detail += "\n" + hist()
			return seekViolation
		}
		if present && err != nil {
			return violation("unexpected-error", remoteErrSig(err), "step %d %s failed: %v\n%s", i, op, err, hist())
		}
		if !present && err == nil {
			return violation("fetched-absent-content", "", "step %d %s succeeded although the registry does not hold it\n%s", i, op, hist())
		}
	case "exists":
		if err != nil {
			return violation("unexpected-error", remoteErrSig(err), "step %d %s failed: %v\n%s", i, op, err, hist())
		}
		if gotBool != present {
			return violation("wrong-answer", "", "step %d %s = %v, registry holds it: %v\n%s", i, op, gotBool, present, hist())
		}
		*okOps++
	case "resolve", "fetchref":
		if !tagKnown {
			if err == nil {
				return violation("wrong-answer", "", "step %d %s succeeded for an unknown tag\n%s", i, op, hist())
			}
			return nil
		}
		if err != nil {
			needHeader := !rp.Profile.DigestHeader && (op.Op == "resolve" || rp.Profile.NoContentLength)
			if needHeader {
				return nil // documented client requirement
			}
			return violation("unexpected-error", remoteErrSig(err), "step %d %s failed: %v\n%s", i, op, err, hist())
		}
		m, _ := reg.HasManifest(simRepo, tagDigest)
		if m == nil {
			return nil
		}
		if gotDesc.Digest != tagDigest || gotDesc.Size != int64(len(m.Data)) || gotDesc.MediaType != m.MediaType {
			return violation("wrong-answer", "", "step %d %s = %s %s %d, registry has %s %s %d (node %d)\n%s", i, op, gotDesc.MediaType, gotDesc.Digest, gotDesc.Size, m.MediaType, tagDigest, len(m.Data), tagNode, hist())
		}
		if op.Op == "fetchref" && !bytes.Equal(gotBytes, m.Data) {
			return violation("wrong-bytes", "", "step %d %s returned other bytes than the registry holds\n%s", i, op, hist())
		}
		*okOps++
	case "fetchrefdigest":
		if !present {
			if err == nil {
				return violation("fetched-absent-content", "", "step %d %s succeeded although the registry does not hold it\n%s", i, op, hist())
			}
			return nil
		}
		if err != nil {
			if rp.Profile.NoContentLength && !rp.Profile.DigestHeader {
				return nil // documented client requirement (HEAD fallback needs a digest header)
			}
			return violation("unexpected-error", remoteErrSig(err), "step %d %s failed: %v\n%s", i, op, err, hist())
		}
		if gotDesc.Digest != n.Desc.Digest || gotDesc.Size != n.Desc.Size || !bytes.Equal(gotBytes, n.Data) {
			return violation("wrong-answer", "", "step %d %s returned %s %d and %d bytes, expected %s %d\n%s", i, op, gotDesc.Digest, gotDesc.Size, len(gotBytes), n.Desc.Digest, n.Desc.Size, hist())
		}
		*okOps++
	case "resolvedigest":
		if !present {
			if err == nil {
				return violation("wrong-answer", "", "step %d %s succeeded for absent content\n%s", i, op, hist())
			}
			return nil
		}
		if err != nil {
			return violation("unexpected-error", remoteErrSig(err), "step %d %s failed: %v\n%s", i, op, err, hist())
		}
		if gotDesc.Digest != n.Desc.Digest || gotDesc.Size != n.Desc.Size {
			return violation("wrong-answer", "", "step %d %s = %s %d, expected %s %d\n%s", i, op, gotDesc.Digest, gotDesc.Size, n.Desc.Digest, n.Desc.Size, hist())
		}
	case "tag":
		if !n.IsManif || !present {
			if err == nil {
				return violation("wrong-answer", "", "step %d %s succeeded although the registry holds no such manifest\n%s", i, op, hist())
			}
			return nil
		}
		if err != nil {
			return violation("unexpected-error", remoteErrSig(err), "step %d %s failed: %v\n%s", i, op, err, hist())
		}
		if d, ok := reg.TagOf(simRepo, op.Ref); !ok || d != n.Desc.Digest {
			return violation("tag-not-set", "", "step %d %s returned nil but the registry tag points to %v\n%s", i, op, d, hist())
		}
		*okOps++
	case "delete":
		if !present {
			if err == nil {
				return violation("wrong-answer", "", "step %d %s succeeded for absent content\n%s", i, op, hist())
			}
			return nil
		}
		if err != nil {
			var re *remote.ReferrersError
			if errors.As(err, &re) && re.IsReferrersIndexDelete() {
				return nil
			}
			return violation("unexpected-error", remoteErrSig(err), "step %d %s failed: %v\n%s", i, op, err, hist())
		}
		if regHas(reg, simRepo, n) {
			return violation("delete-not-applied", "", "step %d %s returned nil but the registry still holds the content\n%s", i, op, hist())
		}
		*okOps++
	case "mount":
		_, inOther := reg.HasBlob(simOther, n.Desc.Digest)
		if n.IsManif {
			return nil // Mount is defined for blobs
		}
		if !inOther {
			if err == nil && !present {
				return violation("wrong-answer", "", "step %d %s succeeded although the source repository does not hold the blob\n%s", i, op, hist())
			}
			return nil
		}
		if err != nil {
			return violation("unexpected-error", remoteErrSig(err), "step %d %s failed: %v\n%s", i, op, err, hist())
		}
		if b, ok := reg.HasBlob(simRepo, n.Desc.Digest); !ok || !bytes.Equal(b, n.Data) {
			return violation("mount-not-applied", "", "step %d %s returned nil but the repository does not hold the blob\n%s", i, op, hist())
		}
		*okOps++
	case "preds":
		if err != nil {
			return violation("unexpected-error", remoteErrSig(err), "step %d %s failed: %v\n%s", i, op, err, hist())
		}
		if !n.IsManif && len(refsBefore) == 0 && len(gotList) == 0 {
			return nil
		}
		want := map[string]bool{}
		for _, d := range refsBefore {
			want[descKey(d)] = true
		}
		got := map[string]int{}
		for _, d := range gotList {
			got[descKey(ocispec.Descriptor{MediaType: d.MediaType, Digest: d.Digest, Size: d.Size})]++
		}
		for k := range p.uncertain {
			delete(want, k)
			delete(got, k)
		}
		for k, c := range got {
			if _, known := g.byKey[k]; !known && want[k] && c == 1 {
				continue
			}
			if !want[k] || c > 1 {
				return violation("wrong-referrers", "", "step %d %s lists %s (%d times) which the registry model does not list\n%s", i, op, shortKey(g, k), c, hist())
			}
		}
		for k := range want {
			if _, known := g.byKey[k]; !known {
				// a manifest no operation of this history named: a tampered exchange made the
				// registry store other bytes than the client sent. With the tag schema nobody
				// indexed it; with the API the registry lists it. Neither is judged.
				continue
			}
			if got[k] == 0 {
				return violation("wrong-referrers", "", "step %d %s omits referrer %s\n%s", i, op, shortKey(g, k), hist())
			}
		}
		if len(want) > 0 {
			*okOps++
		}
	}
	return nil
}

// readSeek applies a Read/Seek sequence and compares with the stored bytes.
func (p *remoteProp) readSeek(rc io.ReadCloser, n *Node, op RemoteOp, present bool, refused *error, faultKind func() string) *Verdict {
	failing := func() bool { k := faultKind(); return k == "status-500" || k == "status-429" || k == "transport" }
	tampering := func() bool {
		k := faultKind()
		return k != "" && k != "status-500" && k != "status-429" && k != "transport"
	}
	data := n.Data
	var pos int64
	sk, canSeek := rc.(io.Seeker)
	for si, st := range op.Steps {
		if st.Seek {
			if !canSeek {
				continue
			}
			var want int64
			switch st.Whence {
			case io.SeekStart:
				want = st.Off
			case io.SeekCurrent:
				want = pos + st.Off
			default:
				want = int64(len(data)) + st.Off
			}
			got, err := sk.Seek(st.Off, st.Whence)
			if want < 0 {
				if err == nil {
					return violation("seek-wrong", "", "%s step %d: seeking before the start succeeded", op, si)
				}
				continue
			}
			if err != nil {
				if failing() || tampering() {
					*refused = err // the Range exchange failed or was refused as inconsistent: the reader stays where it was
					continue
				}
				return violation("seek-wrong", "", "%s step %d: Seek(%d,%d) failed: %v", op, si, st.Off, st.Whence, err)
			}
			if got != want {
				return violation("seek-wrong", "", "%s step %d: Seek(%d,%d) = %d, expected %d", op, si, st.Off, st.Whence, got, want)
			}
			pos = want
			continue
		}
		buf := make([]byte, st.Read)
		k, err := io.ReadFull(rc, buf)
		var exp []byte
		if pos < int64(len(data)) {
			end := pos + int64(st.Read)
			if end > int64(len(data)) {
				end = int64(len(data))
			}
			exp = data[pos:end]
		}
		if !bytes.Equal(buf[:k], exp) {
			if tampering() {
				return nil // a tampered body: a raw reader cannot know
			}
			return violation("wrong-bytes", "", "%s step %d: Read(%d) at offset %d returned %d bytes that differ from the stored content (expected %d bytes)", op, si, st.Read, pos, k, len(exp))
		}
		if err != nil && err != io.EOF && err != io.ErrUnexpectedEOF {
			return violation("wrong-bytes", "", "%s step %d: Read failed: %v", op, si, err)
		}
		pos += int64(k)
	}
	return nil
}

// remoteErrSig names the one failure of a conforming history that is recorded as
// a known finding: without the Referrers API the client addresses the referrers
// of a sha512 digest by the tag "sha512-<128 hex digits>", which is longer than a
// tag may be, so every operation that needs that tag is refused locally.
func remoteErrSig(err error) string {
	if err != nil && strings.Contains(err.Error(), `invalid tag "sha512-`) {
		return "referrers-tag-of-sha512-subject-exceeds-tag-length"
	}
	return ""
}
