package harness

import (
	"bytes"
	"context"
	"encoding/base64"
	"encoding/json"
	"errors"
	"fmt"
	"io"
	"net/http"
	"strconv"
	"strings"
	"sync"
	"time"

	"github.com/opencontainers/go-digest"
	ocispec "github.com/opencontainers/image-spec/specs-go/v1"
	"oras.land/oras-go/v2/registry/remote"
	"oras.land/oras-go/v2/registry/remote/auth"
	"oras.land/oras-go/v2/registry/remote/retry"
	"oras.land/oras-go/v2/zsim/simrt"
)

// RetryParams: one request through auth.Client over retry.Transport (C17).
type RetryParams struct {
	Behaviours []string `json:"behaviours"` // consumed per arriving request: 401-basic 401-bearer 408 429 429:N 500 503 timeout neterr 404 200
	Body       string   `json:"body"`       // none | replayable | oneshot
	BodySize   int      `json:"body_size,omitempty"`
	MaxRetry   int      `json:"max_retry"`
	MinWaitMs  int      `json:"min_wait_ms"`
	MaxWaitMs  int      `json:"max_wait_ms"`
	BackoffMs  int      `json:"backoff_ms"`
	Factor     float64  `json:"factor"`
	Jitter     float64  `json:"jitter"`
	// TokenBehaviours: consumed per arriving token request (503 500 429 408 timeout 403), 200 afterwards
	TokenBehaviours []string `json:"token_behaviours,omitempty"`
	CancelAtUs      int64    `json:"cancel_at_us,omitempty"` // cancel the context at this simulated instant (0 = never)
	Deadline        bool     `json:"deadline,omitempty"`     // the context ends by a deadline at that instant instead of a cancel call
	// ViaRepo: the first request is a blob upload made by remote.Repository.Push through
	// this client stack (POST for the session, then the PUT the behaviours apply to). Body
	// "seekable" is then a ReadSeeker positioned behind a header inside a larger stream.
	ViaRepo bool `json:"via_repo,omitempty"`
	// SessionAuth (with ViaRepo): opening the upload session takes a Bearer token, which the client
	// presents again on the PUT that carries the content
	SessionAuth bool `json:"session_auth,omitempty"`
	// Early: failing answers (4xx/5xx) are sent after the first 16 body bytes; the rest of
	// that attempt's body is drained by the server while the client goes on
	Early bool `json:"early,omitempty"`
	// Manifest (with ViaRepo): the upload is a manifest push (PUT /manifests/<digest>), whose
	// streamed content the client buffers so that it can be sent again
	Manifest bool  `json:"manifest,omitempty"`
	Cache    bool  `json:"cache,omitempty"`
	Probe    []int `json:"probe,omitempty"` // attempt numbers for which the policy is asked directly
	// More: further requests sent through the same client after the first one
	// (cached schemes and tokens come into play)
	More []MoreReq `json:"more,omitempty"`
}

type MoreReq struct {
	Behaviours []string `json:"behaviours"`
	Body       string   `json:"body"`
	BodySize   int      `json:"body_size,omitempty"`
}

type retryProp struct{}

func init() { register(&retryProp{}) }

func (p *retryProp) ID() string { return "C17" }

func (p *retryProp) Rule() string {
	return "scenario = sequence of server behaviours (401 Basic/Bearer, 401 refusing the token presented, 408, 429 with/without Retry-After, 5xx, timeout, other transport error, 404, success) x body kind (none, replayable, one-shot; 0-256 KiB) x policy parameters (MaxRetry, MinWait, MaxWait, backoff, factor, jitter incl. 0) x failures of the token endpoint (its requests pass through the same retrying transport and are judged as sends of their own) x cancellation at a simulated instant, plus direct questions to the policy for attempt numbers up to 200; pauses are measured on the simulated clock; non-trivial = at least one retry or re-send after a challenge happened, or the cancellation fell into a pause; distinct = distinct (attempt trace hash)"
}

func (p *retryProp) Components() map[string][]string {
	return map[string][]string{
		"real":        {"auth.Client", "retry.Transport", "retry.GenericPolicy / ExponentialBackoff", "net/http.Client", "time.Timer (fake clock of testing/synctest)"},
		"substituted": {"hash/maphash seed (jitter drawn from the decision tape)", "select (tape-ordered polling)"},
		"stub":        {"simulated server recording the body of every attempt with its simulated arrival time; token endpoint"},
	}
}

func (p *retryProp) Assumptions() []string {
	return []string{
		"attempts of one send are recognised by an unchanged Authorization header (each re-send after a challenge carries a new one)",
		"a Retry-After is expected to be honoured exactly when it lies within [MinWait, MaxWait], and clamped otherwise",
	}
}

func (p *retryProp) Gen(r *Rand, tier string, idx int) any {
	rp := &RetryParams{}
	n := r.Intn(9)
	kinds := []string{"408", "429", "500", "503", "timeout", "timeout", "neterr", "401-basic", "401-bearer", "404", "200", "429:1", "429:2", "429:7", "408", "503", "401-bearer", "401-stale", "404:1", "403:2"}
	for i := 0; i < n; i++ {
		rp.Behaviours = append(rp.Behaviours, pick(r, kinds))
	}
	rp.Body = pick(r, []string{"none", "replayable", "replayable", "oneshot"})
	if rp.Body != "none" {
		rp.BodySize = pick(r, []int{0, 1, 17, 4096, 70000, 262144})
	}
	rp.MaxRetry = r.Intn(9)
	if r.Chance(0.1) {
		rp.MaxRetry = r.Range(20, 80)
		for i := 0; i < rp.MaxRetry; i++ {
			rp.Behaviours = append(rp.Behaviours, pick(r, []string{"500", "503", "timeout", "408"}))
		}
	}
	rp.MinWaitMs = pick(r, []int{0, 1, 50, 200, 500})
	rp.MaxWaitMs = rp.MinWaitMs + pick(r, []int{0, 1, 100, 3000, 10000})
	rp.BackoffMs = pick(r, []int{1, 10, 250, 1000})
	rp.Factor = pick(r, []float64{1, 1.5, 2, 4})
	rp.Jitter = pick(r, []float64{0, 0.1, 0.1, 0.5, 1})
	if r.Chance(0.3) {
		rp.CancelAtUs = int64(r.Range(1, 4000))*1000 + 1
		rp.Deadline = r.Chance(0.4)
	}
	if rp.Body != "none" && rp.BodySize > 0 && r.Chance(0.25) {
		rp.ViaRepo = true
		if r.Chance(0.4) {
			rp.SessionAuth = true
			if r.Bool() {
				rp.Behaviours = append([]string{"401-stale"}, rp.Behaviours...) // the token of the session is refused on the PUT
			}
		}
		if r.Chance(0.4) {
			rp.Body = "seekable"
		} else if r.Chance(0.4) {
			rp.Manifest = true
		}
	}
	if rp.Body != "none" && rp.BodySize > 16 && r.Chance(0.25) {
		rp.Early = true
	}
	rp.Cache = r.Bool()
	if r.Chance(0.4) {
		rp.Cache = true
		rp.CancelAtUs = 0
		for k := r.Range(1, 2); k > 0; k-- {
			m := MoreReq{Body: pick(r, []string{"none", "replayable", "replayable", "oneshot"})}
			if m.Body != "none" {
				m.BodySize = pick(r, []int{1, 17, 4096, 70000})
			}
			for j := r.Intn(4); j > 0; j-- {
				m.Behaviours = append(m.Behaviours, pick(r, []string{"401-bearer", "401-bearer", "401-basic", "500", "timeout", "429:1", "200"}))
			}
			rp.More = append(rp.More, m)
		}
	}
	if r.Chance(0.4) {
		// the token endpoint fails too: its requests go through the same retrying transport
		for k := r.Range(1, 3); k > 0; k-- {
			rp.TokenBehaviours = append(rp.TokenBehaviours, pick(r, []string{"503", "503", "500", "429", "408", "timeout", "403"}))
		}
		if r.Chance(0.5) {
			rp.Behaviours = append([]string{"401-bearer"}, rp.Behaviours...)
			if rp.CancelAtUs == 0 && len(rp.More) == 0 && r.Bool() {
				rp.CancelAtUs = int64(r.Range(1, 1500))*1000 + 1
			}
		}
	}
	for i := 0; i < 6; i++ {
		rp.Probe = append(rp.Probe, pick(r, []int{0, 1, 2, 5, 10, 30, 39, 40, 41, 62, 63, 64, 100, 200}))
	}
	return rp
}

func (p *retryProp) Shrink(raw json.RawMessage) []json.RawMessage {
	var rp RetryParams
	if json.Unmarshal(raw, &rp) != nil {
		return nil
	}
	var out []json.RawMessage
	emit := func(c RetryParams) {
		b, _ := json.Marshal(c)
		out = append(out, b)
	}
	for i := len(rp.TokenBehaviours) - 1; i >= 0; i-- {
		c := rp
		c.TokenBehaviours = append(append([]string{}, rp.TokenBehaviours[:i]...), rp.TokenBehaviours[i+1:]...)
		emit(c)
	}
	for i := len(rp.Behaviours) - 1; i >= 0; i-- {
		c := rp
		c.Behaviours = append(append([]string{}, rp.Behaviours[:i]...), rp.Behaviours[i+1:]...)
		emit(c)
	}
	for i := range rp.Probe {
		c := rp
		c.Probe = append(append([]int{}, rp.Probe[:i]...), rp.Probe[i+1:]...)
		emit(c)
	}
	if rp.BodySize > 17 {
		c := rp
		c.BodySize = 17
		emit(c)
	}
	if rp.CancelAtUs != 0 {
		c := rp
		c.CancelAtUs = 0
		emit(c)
	}
	return out
}

type timeoutErr struct{}

func (timeoutErr) Error() string   { return "simulated i/o timeout" }
func (timeoutErr) Timeout() bool   { return true }
func (timeoutErr) Temporary() bool { return true }

type attemptRec struct {
	at        time.Duration // simulated arrival time
	authz     string
	body      []byte
	hadBody   bool
	idx       int  // position in order of arrival
	early     bool // answered after the first bytes of the body; the rest was drained later
	behaviour string
	status    int
	errKind   string
	retryAftr int
	token     bool
	tokenReq  bool // a request to the token endpoint (token is also set for other exchanges the behaviours do not script)
	req       int
}

type retryServer struct {
	mu       sync.Mutex
	rp       *RetryParams
	start    time.Time
	attempts []*attemptRec
	next     int
	tokens   int
	tokNext  int
	cur      int      // index of the request being served (0 = first)
	beh      []string // behaviours of the current request
}

const retryUser, retryPass = "retry-user", "retry-pass"

func (s *retryServer) RoundTrip(req *http.Request) (*http.Response, error) {
	simrt.Yield("http." + req.Method)
	hasBody := req.Body != nil && req.Body != http.NoBody
	readAll := func() []byte {
		if !hasBody {
			return nil
		}
		defer req.Body.Close()
		if !s.rp.Early {
			b, _ := io.ReadAll(req.Body)
			return b
		}
		// in a few reads, with scheduling points in between: another reader of the same
		// bytes (an earlier attempt still being drained) gets its chance
		var out []byte
		buf := make([]byte, int(req.ContentLength)/3+16)
		for {
			n, err := req.Body.Read(buf)
			out = append(out, buf[:n]...)
			if err != nil {
				return out
			}
			simrt.Yield("http.body")
		}
	}
	s.mu.Lock()
	rec := &attemptRec{at: time.Since(s.start), authz: req.Header.Get("Authorization"), hadBody: hasBody, req: s.cur, idx: len(s.attempts)}
	s.attempts = append(s.attempts, rec)
	var status int
	var hdr http.Header
	var respBody string
	var respErr error
	plan := func(st int, h http.Header, b string) {
		if st == 200 && req.Method == http.MethodPut && (strings.Contains(req.URL.Path, "/blobs/uploads/") || strings.Contains(req.URL.Path, "/manifests/sha256:")) {
			st = 201 // a completed upload
		}
		status, hdr, respBody = st, h, b
	}
	wantBasic := "Basic " + base64.StdEncoding.EncodeToString([]byte(retryUser+":"+retryPass))
	switch {
	case req.Context().Err() != nil:
		// handed to the base transport although the context has ended: an attempt all the same
		rec.errKind = "ctx-ended"
		rec.token = strings.HasPrefix(req.URL.Path, "/token")
		rec.tokenReq = rec.token
		respErr = req.Context().Err()
	case req.Method == http.MethodPost && strings.HasSuffix(req.URL.Path, "/blobs/uploads/"):
		// opening an upload session: not one of the attempts the behaviours script
		rec.token = true
		if s.rp.SessionAuth && !strings.HasPrefix(rec.authz, "Bearer retry-token-") {
			// the session is opened with a token; the client presents the same one on the PUT
			plan(401, http.Header{"Www-Authenticate": {`Bearer realm="https://retry.test/token",service="retry.test",scope="repository:r:pull,push"`}}, "")
			break
		}
		plan(202, http.Header{"Location": {"/v2/r/blobs/uploads/session-1"}}, "")
	case strings.HasPrefix(req.URL.Path, "/token"):
		rec.token, rec.tokenReq = true, true
		tb := "200"
		if s.tokNext < len(s.rp.TokenBehaviours) {
			tb = s.rp.TokenBehaviours[s.tokNext]
			s.tokNext++
		}
		rec.behaviour = "token:" + tb
		switch tb {
		case "timeout":
			rec.errKind = "timeout"
			respErr = timeoutErr{}
		case "503", "500", "429", "408", "403":
			st, _ := strconv.Atoi(tb)
			plan(st, nil, "")
		default:
			s.tokens++
			// every fetch yields a new token, so that each re-send carries its own Authorization value
			plan(200, nil, fmt.Sprintf(`{"access_token":"retry-token-%d"}`, s.tokens))
		}
	default:
		b := "200"
		if s.next < len(s.beh) {
			b = s.beh[s.next]
			s.next++
		}
		rec.behaviour = b
		switch {
		case b == "401-basic":
			if rec.authz == wantBasic {
				plan(200, nil, "ok")
			} else {
				plan(401, http.Header{"Www-Authenticate": {`Basic realm="r"`}}, "")
			}
		case b == "401-bearer":
			if strings.HasPrefix(rec.authz, "Bearer retry-token-") {
				plan(200, nil, "ok")
			} else {
				plan(401, http.Header{"Www-Authenticate": {`Bearer realm="https://retry.test/token",service="retry.test",scope="repository:r:pull"`}}, "")
			}
		case b == "401-stale":
			// whatever token the request carries is not (or no longer) accepted
			plan(401, http.Header{"Www-Authenticate": {`Bearer realm="https://retry.test/token",service="retry.test",scope="repository:r:pull,push"`}}, "")
		case b == "408":
			plan(408, nil, "")
		case strings.HasPrefix(b, "429"):
			h := http.Header{}
			if i := strings.Index(b, ":"); i >= 0 {
				h.Set("Retry-After", b[i+1:])
				rec.retryAftr, _ = strconv.Atoi(b[i+1:])
			}
			plan(429, h, "")
		case b == "500":
			plan(500, nil, "")
		case b == "503":
			plan(503, nil, "")
		case b == "404":
			plan(404, nil, "")
		case b == "404:1", b == "403:2":
			// a non-retryable answer that happens to carry Retry-After
			st, _ := strconv.Atoi(b[:3])
			plan(st, http.Header{"Retry-After": {b[4:]}}, "")
		case b == "timeout":
			rec.errKind = "timeout"
			respErr = timeoutErr{}
		case b == "neterr":
			rec.errKind = "neterr"
			respErr = errors.New("simulated connection refused")
		default:
			plan(200, nil, "ok")
		}
	}
	early := s.rp.Early && hasBody && respErr == nil && status >= 400 && !rec.token
	s.mu.Unlock()

	if early {
		// the server has made up its mind after the first bytes and answers at once; the rest
		// of the body is drained afterwards, while the client may already be sending again
		head := make([]byte, 16)
		n, _ := io.ReadFull(req.Body, head)
		s.mu.Lock()
		rec.body, rec.early = head[:n], true
		s.mu.Unlock()
		body := req.Body
		simrt.Go(func() {
			buf := make([]byte, 4096)
			for {
				simrt.Yield("http.drain")
				if _, err := body.Read(buf); err != nil {
					break
				}
			}
			body.Close()
		})
	} else {
		b := readAll()
		s.mu.Lock()
		rec.body = b
		s.mu.Unlock()
	}
	s.mu.Lock()
	rec.status = status
	simrt.Note("retry server: attempt %d at %v behaviour %s body=%d early=%v authz=%q -> %d %v", rec.idx+1, rec.at, rec.behaviour, len(rec.body), rec.early, rec.authz, status, respErr)
	s.mu.Unlock()
	if respErr != nil {
		return nil, respErr
	}
	if hdr == nil {
		hdr = http.Header{}
	}
	return &http.Response{StatusCode: status, Status: http.StatusText(status), Header: hdr, Body: io.NopCloser(strings.NewReader(respBody)), ContentLength: int64(len(respBody)), Request: req, Proto: "HTTP/1.1", ProtoMajor: 1, ProtoMinor: 1}, nil
}

// recordingPolicy hands the real policy's decisions through and notes each pause it
// asked for, so that the oracle knows when the next attempt is due.
type recordingPolicy struct {
	inner  retry.Policy
	srv    *retryServer
	mu     sync.Mutex
	pauses []policyPause
}

type policyPause struct {
	after int // number of attempts the server had seen when the decision was taken
	d     time.Duration
}

func (p *recordingPolicy) Retry(attempt int, resp *http.Response, err error) (time.Duration, error) {
	d, rerr := p.inner.Retry(attempt, resp, err)
	if rerr == nil {
		p.srv.mu.Lock()
		n := len(p.srv.attempts)
		p.srv.mu.Unlock()
		p.mu.Lock()
		p.pauses = append(p.pauses, policyPause{after: n, d: d})
		p.mu.Unlock()
	}
	return d, rerr
}

// pauseBefore returns the pause the policy asked for right before the idx-th attempt
// (0-based, in order of arrival at the server).
func (p *recordingPolicy) pauseBefore(idx int) (time.Duration, bool) {
	p.mu.Lock()
	defer p.mu.Unlock()
	for i := len(p.pauses) - 1; i >= 0; i-- {
		if p.pauses[i].after == idx {
			return p.pauses[i].d, true
		}
	}
	return 0, false
}

// offsetSeeker is a plain ReadSeeker (no type net/http knows how to replay).
type offsetSeeker struct{ r *bytes.Reader }

func (o *offsetSeeker) Read(p []byte) (int, error)                { return o.r.Read(p) }
func (o *offsetSeeker) Seek(off int64, whence int) (int64, error) { return o.r.Seek(off, whence) }

type oneShot struct{ r io.Reader }

func (o *oneShot) Read(p []byte) (int, error) { return o.r.Read(p) }

func (p *retryProp) Run(rc *RunCtx, sc *Scenario) *RunInfo {
	info := newInfo()
	var rp RetryParams
	if err := json.Unmarshal(sc.Params, &rp); err != nil {
		info.V = violation("harness", "", "bad params: %v", err)
		return info
	}
	var v *Verdict
	rc.Bubble(func() { v = p.run(rc, &rp, info) })
	info.V = v
	return info
}

func (p *retryProp) run(rc *RunCtx, rp *RetryParams, info *RunInfo) *Verdict {
	minWait, maxWait := time.Duration(rp.MinWaitMs)*time.Millisecond, time.Duration(rp.MaxWaitMs)*time.Millisecond
	policy := &retry.GenericPolicy{
		Retryable: retry.DefaultPredicate,
		Backoff:   retry.ExponentialBackoff(time.Duration(rp.BackoffMs)*time.Millisecond, rp.Factor, rp.Jitter),
		MinWait:   minWait, MaxWait: maxWait, MaxRetry: rp.MaxRetry,
	}
	srv := &retryServer{rp: rp}
	recPol := &recordingPolicy{inner: policy, srv: srv}
	client := &auth.Client{
		Client: &http.Client{Transport: &retry.Transport{Base: srv, Policy: func() retry.Policy { return recPol }}},
		Credential: func(ctx context.Context, host string) (auth.Credential, error) {
			return auth.Credential{Username: retryUser, Password: retryPass}, nil
		},
	}
	if rp.Cache {
		client.Cache = auth.NewCache()
	}
	payload := bytes.Repeat([]byte("0123456789abcdef"), rp.BodySize/16+1)[:rp.BodySize]
	var resp *http.Response
	var doErr error
	var cancelAt time.Duration
	var returnedAt time.Duration
	var probeViol *Verdict
	type moreResult struct {
		status int
		err    error
	}
	var moreRes []moreResult
	morePayload := func(m MoreReq) []byte {
		return bytes.Repeat([]byte("fedcba9876543210"), m.BodySize/16+1)[:m.BodySize]
	}
	srv.beh = rp.Behaviours
	res := simrt.Run(rc.NextConfig(), func() {
		srv.start = time.Now()
		// direct questions to the policy: every attempt number, retryable outcome
		for _, a := range rp.Probe {
			if a >= rp.MaxRetry {
				// beyond MaxRetry the policy gives up; ask a policy that does not
				pol := *policy
				pol.MaxRetry = a + 1
				d, err := pol.Retry(a, &http.Response{StatusCode: 503, Header: http.Header{}}, nil)
				if err != nil || d < minWait || d > maxWait {
					probeViol = violation("pause-out-of-bounds", "", "policy.Retry(attempt %d) = %v, %v; bounds are [%v, %v] (backoff %dms factor %v jitter %v)", a, d, err, minWait, maxWait, rp.BackoffMs, rp.Factor, rp.Jitter)
					return
				}
				continue
			}
			d, err := policy.Retry(a, &http.Response{StatusCode: 503, Header: http.Header{}}, nil)
			if err != nil || d < minWait || d > maxWait {
				probeViol = violation("pause-out-of-bounds", "", "policy.Retry(attempt %d) = %v, %v; bounds are [%v, %v] (backoff %dms factor %v jitter %v)", a, d, err, minWait, maxWait, rp.BackoffMs, rp.Factor, rp.Jitter)
				return
			}
		}
		ctx, cancel := context.WithCancel(context.Background())
		defer cancel()
		if rp.CancelAtUs > 0 && rp.Deadline {
			ctx, cancel = context.WithDeadline(context.Background(), srv.start.Add(time.Duration(rp.CancelAtUs)*time.Microsecond))
			defer cancel()
			cancelAt = time.Duration(rp.CancelAtUs) * time.Microsecond
		} else if rp.CancelAtUs > 0 {
			simrt.Go(func() {
				time.Sleep(time.Duration(rp.CancelAtUs) * time.Microsecond)
				simrt.Yield("cancel-timer")
				cancelAt = time.Since(srv.start)
				cancel()
			})
		}
		var body io.Reader
		switch rp.Body {
		case "replayable":
			body = bytes.NewReader(payload)
		case "oneshot":
			body = &oneShot{r: bytes.NewReader(payload)}
		}
		method := http.MethodGet
		if body != nil {
			method = http.MethodPut
		}
		if rp.ViaRepo && rp.Body != "none" {
			repo, _ := remote.NewRepository("retry.test/r")
			repo.Client = client
			var content io.Reader
			switch rp.Body {
			case "replayable":
				content = bytes.NewReader(payload)
			case "oneshot":
				content = &oneShot{r: bytes.NewReader(payload)}
			default: // seekable: the blob lies behind a header in a larger stream
				whole := append([]byte("HEADER-HEADER-HEADER-HEADER-"), payload...)
				rs := &offsetSeeker{r: bytes.NewReader(whole)}
				rs.Seek(int64(len(whole)-len(payload)), io.SeekStart)
				content = rs
			}
			d := ocispec.Descriptor{MediaType: "application/octet-stream", Digest: digest.FromBytes(payload), Size: int64(len(payload))}
			if rp.Manifest {
				d.MediaType = "application/vnd.example.manifest.v1+json" // a manifest type without client-side referrers handling
				repo.ManifestMediaTypes = []string{d.MediaType}
			}
			doErr = repo.Push(ctx, d, content)
			returnedAt = time.Since(srv.start)
			info.Probes["upload_through_repository"]++
			return
		}
		req, _ := http.NewRequestWithContext(ctx, method, "https://retry.test/v2/r/manifests/x", body)
		resp, doErr = client.Do(req)
		returnedAt = time.Since(srv.start)
		if resp != nil {
			resp.Body.Close()
		}
		for k, m := range rp.More {
			srv.mu.Lock()
			srv.cur, srv.beh, srv.next = k+1, m.Behaviours, 0
			srv.mu.Unlock()
			var b io.Reader
			switch m.Body {
			case "replayable":
				b = bytes.NewReader(morePayload(m))
			case "oneshot":
				b = &oneShot{r: bytes.NewReader(morePayload(m))}
			}
			method := http.MethodGet
			if b != nil {
				method = http.MethodPut
			}
			rq, _ := http.NewRequestWithContext(context.Background(), method, "https://retry.test/v2/r/manifests/y", b)
			rs, err := client.Do(rq)
			mr := moreResult{err: err}
			if rs != nil {
				mr.status = rs.StatusCode
				rs.Body.Close()
			}
			moreRes = append(moreRes, mr)
		}
	})
	rc.Done(res)
	info.absorb(res)
	info.Outcome = string(res.Outcome)
	describe := func() string {
		var lines []string
		for i, a := range srv.attempts {
			kind := a.behaviour
			if a.token && !a.tokenReq {
				kind = "session"
			} else if a.token && kind == "" {
				kind = "token"
			}
			lines = append(lines, fmt.Sprintf("#%d at %v %s -> status %d %s body=%d/%d authz=%.14q", i+1, a.at, kind, a.status, a.errKind, len(a.body), len(payload), a.authz))
		}
		return fmt.Sprintf("params %+v\nresult: resp=%v err=%v returned at %v cancel at %v\n%s", *rp, statusOf(resp), doErr, returnedAt, cancelAt, strings.Join(lines, "\n"))
	}
	switch res.Outcome {
	case simrt.OK:
	case simrt.Panicked:
		sig := ""
		if strings.Contains(res.PanicValue, "Int64N") || strings.Contains(res.PanicStack, "ExponentialBackoff") {
			sig = "exponential-backoff-panics"
		}
		return violation("panic", sig, "panic: %s\n%s\n%s", res.PanicValue, describe(), res.PanicStack)
	default:
		return violation("hang", "", "request did not finish: %s %s\n%s", res.Outcome, res.Detail, describe())
	}
	if probeViol != nil {
		return probeViol
	}
	// checkRetry judges one repeated attempt against the one it repeats
	checkRetry := func(what string, a, prev *attemptRec) *Verdict {
		retryable := prev.errKind == "timeout" || prev.status == 408 || prev.status == 429 || prev.status >= 500
		if !retryable {
			return violation("retried-non-retryable", "", "%s follows a non-retryable answer (%d %s)\n%s", what, prev.status, prev.errKind, describe())
		}
		pause := a.at - prev.at
		if d, ok := recPol.pauseBefore(a.idx); ok && pause < d {
			return violation("attempt-before-pause-elapsed", "", "%s started %v after the previous one although the policy asked for a pause of %v (context ended at %v)\n%s", what, pause, d, cancelAt, describe())
		}
		if pause < minWait || pause > maxWait {
			return violation("pause-out-of-bounds", "", "pause before %s was %v, bounds are [%v, %v]\n%s", what, pause, minWait, maxWait, describe())
		}
		if prev.retryAftr > 0 {
			ra := time.Duration(prev.retryAftr) * time.Second
			if ra >= minWait && ra <= maxWait && pause < ra {
				return violation("retry-after-ignored", "", "pause before %s was %v although the server asked for %v\n%s", what, pause, ra, describe())
			}
		}
		if rp.CancelAtUs > 0 && cancelAt > 0 && a.at > cancelAt {
			return violation("attempt-after-cancel", "", "%s arrived at %v, after the context was cancelled at %v\n%s", what, a.at, cancelAt, describe())
		}
		return nil
	}
	// requests to the token endpoint are sends of their own: repeated on retryable failures only,
	// at most MaxRetry+1 times, after the pause the policy asked for
	var tokSend []*attemptRec
	for _, a := range srv.attempts {
		if !a.tokenReq {
			tokSend = nil
			continue
		}
		if n := len(tokSend); n > 0 {
			prev := tokSend[n-1]
			if prev.status == 200 || a.req != prev.req {
				tokSend = nil
			}
		}
		tokSend = append(tokSend, a)
		if len(tokSend) > rp.MaxRetry+1 {
			return violation("too-many-attempts", "", "a token request was attempted %d times with MaxRetry %d\n%s", len(tokSend), rp.MaxRetry, describe())
		}
		if n := len(tokSend); n > 1 {
			if v := checkRetry(fmt.Sprintf("attempt %d of a token request", n), a, tokSend[n-2]); v != nil {
				return v
			}
			info.Probes["token_request_retried"]++
		}
	}
	retried := false
	for reqIdx := 0; reqIdx <= len(rp.More); reqIdx++ {
		bodyKind, payload := rp.Body, payload
		if reqIdx > 0 {
			m := rp.More[reqIdx-1]
			bodyKind, payload = m.Body, morePayload(m)
		} else if rp.ViaRepo && rp.Manifest && bodyKind == "oneshot" {
			bodyKind = "replayable" // the client buffers a streamed manifest so that it can send it again
		}
		// group resource attempts into sends by Authorization header
		var sends [][]*attemptRec
		for _, a := range srv.attempts {
			if a.token || a.req != reqIdx {
				continue
			}
			if n := len(sends); n > 0 && sends[n-1][0].authz == a.authz {
				sends[n-1] = append(sends[n-1], a)
			} else {
				sends = append(sends, []*attemptRec{a})
			}
		}
		for si, send := range sends {
			if len(send) > rp.MaxRetry+1 {
				return violation("too-many-attempts", "", "send %d was attempted %d times with MaxRetry %d\n%s", si+1, len(send), rp.MaxRetry, describe())
			}
			for ai, a := range send {
				// whole body on every attempt
				if bodyKind != "none" {
					if ai > 0 || si > 0 {
						retried = true
					}
					if a.early {
						// answered before the body had been read: what was read of it is a prefix
						if !bytes.HasPrefix(payload, a.body) {
							return violation("body-not-rewound", "", "attempt %d of send %d began with bytes that are not the beginning of the body\n%s", ai+1, si+1, describe())
						}
						info.Probes["answered_before_body_was_read"]++
					} else if !bytes.Equal(a.body, payload) {
						if bodyKind == "oneshot" || bodyKind == "seekable" {
							return violation("one-shot-body-resent-truncated", "", "attempt %d of send %d carried %d of %d body bytes of a body that cannot be replayed\n%s", ai+1, si+1, len(a.body), len(payload), describe())
						}
						return violation("body-not-rewound", "", "attempt %d of send %d carried %d of %d body bytes\n%s", ai+1, si+1, len(a.body), len(payload), describe())
					}
				}
				if ai == 0 {
					continue
				}
				retried = true
				if v := checkRetry(fmt.Sprintf("attempt %d of send %d", ai+1, si+1), a, send[ai-1]); v != nil {
					return v
				}
			}
			// a new send (after a challenge) happens without pause
			if si > 0 {
				// (measured from the exchange right before it: the 401, or the token request it led to)
				last := srv.attempts[send[0].idx-1]
				gap := send[0].at - last.at
				if gap != 0 {
					return violation("pause-after-non-retryable", "", "re-send %d started %v after the 401 it answers\n%s", si+1, gap, describe())
				}
			}
		}
	}
	// non-retryable final answers return at once
	var firstReq []*attemptRec
	for _, a := range srv.attempts {
		if a.req == 0 {
			firstReq = append(firstReq, a)
		}
	}
	if doErr == nil && resp != nil && len(firstReq) > 0 {
		last := firstReq[len(firstReq)-1]
		if returnedAt != last.at {
			return violation("pause-after-non-retryable", "", "the call returned %v after its last answer\n%s", returnedAt-last.at, describe())
		}
	}
	// cancellation during a pause ends the call with the context's error
	if rp.CancelAtUs > 0 && cancelAt > 0 && returnedAt >= cancelAt {
		inPause := false
		for _, a := range firstReq {
			if a.at > cancelAt {
				return violation("attempt-after-cancel", "", "an attempt arrived at %v, after the context was cancelled at %v\n%s", a.at, cancelAt, describe())
			}
		}
		if returnedAt > cancelAt {
			return violation("cancel-not-honoured", "", "the context was cancelled at %v but the call returned at %v\n%s", cancelAt, returnedAt, describe())
		}
		if doErr == nil && returnedAt == cancelAt {
			// cancelled at the very instant of the answer: either outcome
		} else if doErr != nil && !errors.Is(doErr, context.Canceled) && !errors.Is(doErr, context.DeadlineExceeded) {
			// the call may have ended by an earlier error already
			if returnedAt == cancelAt {
				inPause = true
				_ = inPause
			}
		} else if errors.Is(doErr, context.Canceled) || errors.Is(doErr, context.DeadlineExceeded) {
			info.Probes["cancelled_during_pause"]++
			if rp.Deadline {
				info.Probes["deadline_during_pause"]++
			}
			retried = true
		}
	}
	if retried {
		info.Nontrivial = true
		info.Probes["retried_or_resent"]++
	}
	if rp.Body == "oneshot" && len(firstReq) == 1 && len(rp.Behaviours) > 0 && firstReq[0].status != 200 {
		info.Probes["one_shot_give_up"]++
	}
	if len(rp.More) > 0 {
		info.Probes["several_requests_one_client"]++
	}
	info.SimTime = returnedAt
	info.StateHash = strHash(fmt.Sprint(len(srv.attempts), statusOf(resp), doErr != nil))
	info.Sample = map[string]any{"params": rp, "attempts": len(srv.attempts), "returned_after": returnedAt.String(), "err": fmt.Sprint(doErr)}
	return nil
}

func statusOf(r *http.Response) int {
	if r == nil {
		return 0
	}
	return r.StatusCode
}
