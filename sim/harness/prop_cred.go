package harness

import (
	"context"
	"encoding/base64"
	"encoding/json"
	"fmt"
	"os"
	"path/filepath"
	"reflect"
	"sort"
	"strings"
	"sync"
	"time"

	"github.com/anishathalye/porcupine"
	"oras.land/oras-go/v2/registry/remote/auth"
	"oras.land/oras-go/v2/registry/remote/credentials"
	"oras.land/oras-go/v2/zsim/simos"
	"oras.land/oras-go/v2/zsim/simrt"
)

type CredSpec struct {
	U string `json:"u,omitempty"`
	P string `json:"p,omitempty"`
	R string `json:"r,omitempty"`
	A string `json:"a,omitempty"`
}

type CredOp struct {
	Op   string   `json:"op"` // put | get | delete
	Addr string   `json:"addr"`
	Cred CredSpec `json:"cred,omitempty"`
	Task int      `json:"task,omitempty"`
	// Cancelled (put, delete; sequential histories): the call is made with a context that has ended.
	// It may take effect and succeed, or fail - then it must never take effect, later either
	Cancelled bool `json:"cancelled,omitempty"`
}

func (o CredOp) String() string {
	if o.Op == "put" {
		return fmt.Sprintf("put(%s,%q:%q r=%q a=%q)", o.Addr, o.Cred.U, o.Cred.P, o.Cred.R, o.Cred.A)
	}
	return fmt.Sprintf("%s(%s)", o.Op, o.Addr)
}

type CredParams struct {
	Initial string   `json:"initial"` // initial config document ("" = no file)
	Ops     []CredOp `json:"ops"`
	Tasks   int      `json:"tasks"`
	Victim  int      `json:"victim"` // index of the op interrupted at every crash point (-1 = none)
	// TwoStores: two tasks, each with a store of its own on its own file, both files in one
	// directory; every store is judged against its own model step by step
	TwoStores bool `json:"two_stores,omitempty"`
	OnlyK     int  `json:"only_k,omitempty"`
}

type credProp struct{}

func init() { register(&credProp{}) }

func (p *credProp) ID() string { return "C18" }

func (p *credProp) Rule() string {
	return "scenario = pre-existing docker config document (unknown top-level keys, unknown per-entry fields, legacy URL keys) + Put/Get/Delete history on one file store; sequential histories are compared step by step with a model document and the file on disk; histories split over 2-4 tasks run under seeded interleavings and the final file, and what the same store answers afterwards for every address named, must equal the result of one sequential order (porcupine); for a sampled Put/Delete every mutating disk operation of its save is a crash point (complete enumeration) after which the file must be the complete old or complete new document (the same operation failing with EIO instead: then the call is repeated and must take effect, or another registry is stored and every other entry must survive that); non-trivial = the file was rewritten at least once with foreign content to preserve, or a crash point k>1 was exercised, or >=2 tasks interleaved; distinct = distinct (event-trace hash, final document hash)"
}

func (p *credProp) Components() map[string][]string {
	return map[string][]string{
		"real":        {"credentials.FileStore", "credentials/internal/config", "credentials/internal/ioutil (temp file + rename, real tmpfs)"},
		"substituted": {"sync.RWMutex (scheduler-controlled)", "os (pass-through, counted, crash = freeze before the k-th mutating operation)", "map iteration order"},
		"stub":        {},
	}
}

func (p *credProp) Assumptions() []string {
	return []string{
		"hostnames in a document are distinct, so legacy-key lookup is unambiguous",
		"crash model: process death at system-call boundaries, no torn single write",
		"documents are compared as JSON values (key order and whitespace are not part of the statement)",
	}
}

var credAddrs = []string{"registry.example.com", "localhost:5000", "ghcr.io", "10.0.0.1:443", "other.io"}

func (p *credProp) Gen(r *Rand, tier string, idx int) any {
	cp := &CredParams{Victim: -1, Tasks: 1}
	if r.Chance(0.85) {
		doc := map[string]any{}
		if r.Chance(0.6) {
			doc["experimental"] = "enabled"
		}
		if r.Chance(0.4) {
			doc["HttpHeaders"] = map[string]any{"User-Agent": "x/1", "nested": []any{1, "two", nil, true}}
		}
		if r.Chance(0.2) {
			doc["credsStore"] = "secretservice"
		}
		if r.Chance(0.2) {
			doc["credHelpers"] = map[string]any{"gcr.io": "gcloud"}
		}
		if r.Chance(0.8) {
			auths := map[string]any{}
			for _, a := range credAddrs {
				if !r.Chance(0.4) {
					continue
				}
				key := a
				switch r.Intn(5) {
				case 0:
					key = "https://" + a + "/v1/"
				case 1:
					key = "http://" + a
				}
				e := map[string]any{}
				switch r.Intn(4) {
				case 0:
					e["auth"] = base64.StdEncoding.EncodeToString([]byte("user-" + a + ":pw:with:colons"))
				case 1:
					e["username"] = "legacy"
					e["password"] = "legacy-pw"
				case 2:
					e["identitytoken"] = "idt-" + a
				default:
					e["auth"] = base64.StdEncoding.EncodeToString([]byte("üser:pässwörd"))
					e["registrytoken"] = "rt"
				}
				if r.Chance(0.5) {
					e["email"] = "someone@example.com"
					e["x-unknown"] = map[string]any{"k": []any{"v"}}
				}
				auths[key] = e
			}
			doc["auths"] = auths
		}
		b, _ := json.MarshalIndent(doc, "", "  ")
		cp.Initial = string(b)
	}
	if r.Chance(0.35) {
		cp.Tasks = r.Range(2, 4)
	}
	n := r.Range(2, 14)
	for i := 0; i < n; i++ {
		op := CredOp{Addr: pick(r, credAddrs)}
		switch r.Intn(6) {
		case 0, 1, 2:
			op.Op = "put"
			op.Cred = CredSpec{U: pick(r, []string{"", "alice", "bob", "üñí", "a:b"}), P: pick(r, []string{"", "secret", "p:w:d", "pässwort", " "}),
				R: pick(r, []string{"", "", "refresh-1"}), A: pick(r, []string{"", "", "access-1"})}
			op.Cred.P += fmt.Sprint(i) // unique values make every read attributable
		case 3:
			op.Op = "get"
			if cp.Tasks == 1 && r.Chance(0.4) {
				op.Op = "reput" // Get then Put: two calls, only used in sequential histories
			}
		case 4:
			op.Op = "get"
		default:
			op.Op = "delete"
		}
		if cp.Tasks > 1 {
			op.Task = r.Intn(cp.Tasks)
		} else if (op.Op == "put" || op.Op == "delete") && r.Chance(0.08) {
			op.Cancelled = true
		}
		cp.Ops = append(cp.Ops, op)
	}
	if cp.Tasks == 2 && r.Chance(0.5) {
		cp.TwoStores = true
	}
	if cp.Tasks == 1 && r.Chance(0.6) {
		var cands []int
		for i, o := range cp.Ops {
			if o.Op != "get" && o.Op != "reput" {
				cands = append(cands, i)
			}
		}
		if len(cands) > 0 {
			cp.Victim = pick(r, cands)
		}
	}
	return cp
}

func (p *credProp) Shrink(raw json.RawMessage) []json.RawMessage {
	var cp CredParams
	if json.Unmarshal(raw, &cp) != nil {
		return nil
	}
	var out []json.RawMessage
	for i := len(cp.Ops) - 1; i >= 0; i-- {
		if i == cp.Victim {
			continue
		}
		c := cp
		c.Ops = append(append([]CredOp{}, cp.Ops[:i]...), cp.Ops[i+1:]...)
		if cp.Victim > i {
			c.Victim = cp.Victim - 1
		}
		b, _ := json.Marshal(c)
		out = append(out, b)
	}
	if cp.Tasks > 1 {
		c := cp
		c.Tasks = 1
		c.Ops = nil
		for _, o := range cp.Ops {
			o.Task = 0
			c.Ops = append(c.Ops, o)
		}
		b, _ := json.Marshal(c)
		out = append(out, b)
	}
	return out
}

// ---- model ----

type credModel struct {
	top   map[string]any            // every top-level key except auths
	auths map[string]map[string]any // entries
	saved bool                      // the file has been rewritten at least once
	had   bool                      // a file existed initially
}

func newCredModel(initial string) *credModel {
	m := &credModel{top: map[string]any{}, auths: map[string]map[string]any{}}
	if initial == "" {
		return m
	}
	m.had = true
	var doc map[string]any
	json.Unmarshal([]byte(initial), &doc)
	for k, v := range doc {
		if k == "auths" {
			if am, ok := v.(map[string]any); ok {
				for a, e := range am {
					if em, ok := e.(map[string]any); ok {
						m.auths[a] = em
					}
				}
			}
			continue
		}
		m.top[k] = v
	}
	return m
}

func (m *credModel) clone() *credModel {
	c := &credModel{top: m.top, auths: map[string]map[string]any{}, saved: m.saved, had: m.had}
	for k, v := range m.auths {
		c.auths[k] = v
	}
	return c
}

func (m *credModel) doc() map[string]any {
	d := map[string]any{}
	for k, v := range m.top {
		d[k] = v
	}
	a := map[string]any{}
	for k, v := range m.auths {
		a[k] = v
	}
	d["auths"] = a
	return d
}

func (m *credModel) key() string {
	b, _ := json.Marshal(m.doc())
	return fmt.Sprintf("%v|%s", m.saved, b)
}

func hostOf(addr string) string {
	addr = strings.TrimPrefix(addr, "http://")
	addr = strings.TrimPrefix(addr, "https://")
	if i := strings.Index(addr, "/"); i >= 0 {
		addr = addr[:i]
	}
	return addr
}

type credRes struct {
	Err  string
	Cred CredSpec
}

func (m *credModel) apply(op CredOp) credRes {
	switch op.Op {
	case "reput":
		// log in again with what the store currently answers for this address
		cur := m.apply(CredOp{Op: "get", Addr: op.Addr})
		if cur.Err != "" || cur.Cred == (CredSpec{}) {
			return cur
		}
		return m.apply(CredOp{Op: "put", Addr: op.Addr, Cred: cur.Cred})
	case "put":
		if strings.Contains(op.Cred.U, ":") {
			return credRes{Err: "badformat"}
		}
		e := map[string]any{}
		if op.Cred.U != "" || op.Cred.P != "" {
			e["auth"] = base64.StdEncoding.EncodeToString([]byte(op.Cred.U + ":" + op.Cred.P))
		}
		if op.Cred.R != "" {
			e["identitytoken"] = op.Cred.R
		}
		if op.Cred.A != "" {
			e["registrytoken"] = op.Cred.A
		}
		m.auths[op.Addr] = e
		m.saved = true
		return credRes{}
	case "delete":
		if _, ok := m.auths[op.Addr]; ok {
			delete(m.auths, op.Addr)
			m.saved = true
		}
		return credRes{}
	case "get":
		e, ok := m.auths[op.Addr]
		if !ok {
			var keys []string
			for k := range m.auths {
				keys = append(keys, k)
			}
			sort.Strings(keys)
			for _, k := range keys {
				if hostOf(k) == op.Addr {
					e, ok = m.auths[k], true
					break
				}
			}
		}
		if !ok {
			return credRes{}
		}
		var c CredSpec
		str := func(k string) string { s, _ := e[k].(string); return s }
		c.U, c.P = str("username"), str("password")
		c.R, c.A = str("identitytoken"), str("registrytoken")
		if a := str("auth"); a != "" {
			dec, err := base64.StdEncoding.DecodeString(a)
			if err != nil {
				return credRes{Err: "other"}
			}
			u, pw, ok := strings.Cut(string(dec), ":")
			if !ok {
				return credRes{Err: "other"}
			}
			c.U, c.P = u, pw
		}
		return credRes{Cred: c}
	}
	panic("bad op")
}

func execCred(fs *credentials.FileStore, op CredOp) credRes {
	ctx := context.Background()
	if op.Cancelled {
		c, cancel := context.WithCancel(ctx)
		cancel()
		ctx = c
	}
	switch op.Op {
	case "reput":
		c, err := fs.Get(ctx, op.Addr)
		if err != nil || c == auth.EmptyCredential {
			return credRes{Err: credErr(err), Cred: CredSpec{U: c.Username, P: c.Password, R: c.RefreshToken, A: c.AccessToken}}
		}
		return credRes{Err: credErr(fs.Put(ctx, op.Addr, c))}
	case "put":
		err := fs.Put(ctx, op.Addr, auth.Credential{Username: op.Cred.U, Password: op.Cred.P, RefreshToken: op.Cred.R, AccessToken: op.Cred.A})
		return credRes{Err: credErr(err)}
	case "delete":
		return credRes{Err: credErr(fs.Delete(ctx, op.Addr))}
	default:
		c, err := fs.Get(ctx, op.Addr)
		return credRes{Err: credErr(err), Cred: CredSpec{U: c.Username, P: c.Password, R: c.RefreshToken, A: c.AccessToken}}
	}
}

func credErr(err error) string {
	switch {
	case err == nil:
		return ""
	case strings.Contains(err.Error(), "bad credential format"):
		return "badformat"
	}
	return "other:" + err.Error()
}

// fileDoc reads the config file as a JSON value; ok=false if absent.
func fileDoc(path string) (doc map[string]any, present bool, err error) {
	b, e := os.ReadFile(path)
	if e != nil {
		if os.IsNotExist(e) {
			return nil, false, nil
		}
		return nil, false, e
	}
	if e := json.Unmarshal(b, &doc); e != nil {
		return nil, true, fmt.Errorf("config file does not parse (%d bytes): %v", len(b), e)
	}
	return doc, true, nil
}

func normJSON(v any) any {
	b, _ := json.Marshal(v)
	var out any
	json.Unmarshal(b, &out)
	return out
}

// docMatches compares the file with the model. Before the first save the file is untouched.
func docMatches(path string, m *credModel, initial string) string {
	doc, present, err := fileDoc(path)
	if err != nil {
		return err.Error()
	}
	if !m.saved {
		if !m.had {
			if present {
				return "a config file appeared although nothing was stored"
			}
			return ""
		}
		var init map[string]any
		json.Unmarshal([]byte(initial), &init)
		if !reflect.DeepEqual(normJSON(doc), normJSON(init)) {
			return "the config file changed although no credential was stored or deleted"
		}
		return ""
	}
	if !present {
		return "config file missing after a save"
	}
	want := normJSON(m.doc()).(map[string]any)
	got := normJSON(doc).(map[string]any)
	for k, v := range want {
		if !reflect.DeepEqual(got[k], v) {
			gb, _ := json.Marshal(got[k])
			wb, _ := json.Marshal(v)
			return fmt.Sprintf("top-level key %q: file has %s, expected %s", k, gb, wb)
		}
	}
	for k := range got {
		if _, ok := want[k]; !ok {
			return fmt.Sprintf("unexpected top-level key %q in the file", k)
		}
	}
	return ""
}

func (p *credProp) Run(rc *RunCtx, sc *Scenario) *RunInfo {
	info := newInfo()
	var cp CredParams
	if err := json.Unmarshal(sc.Params, &cp); err != nil {
		info.V = violation("harness", "", "bad params: %v", err)
		return info
	}
	var v *Verdict
	rc.Bubble(func() {
		if cp.TwoStores && cp.Tasks == 2 {
			v = p.twoStores(rc, &cp, info)
		} else if cp.Tasks > 1 {
			v = p.concurrent(rc, &cp, info)
		} else {
			v = p.sequential(rc, sc, &cp, info)
		}
	})
	info.V = v
	info.Sample = map[string]any{"initial_bytes": len(cp.Initial), "ops": fmt.Sprint(cp.Ops), "tasks": cp.Tasks, "victim": cp.Victim}
	return info
}

func writeInitial(dir, initial string) string {
	cfgDir := filepath.Join(dir, "cfg")
	path := filepath.Join(cfgDir, "config.json")
	if initial != "" {
		os.MkdirAll(cfgDir, 0o700)
		os.WriteFile(path, []byte(initial), 0o600)
	}
	return path
}

func (p *credProp) sequential(rc *RunCtx, sc *Scenario, cp *CredParams, info *RunInfo) *Verdict {
	var v *Verdict
	// one execution; crashK>0 freezes the disk before the k-th mutating op of the victim
	var retried credRes
	followed := false
	followUp := CredOp{Op: "put", Addr: "follow-up.example", Cred: CredSpec{U: "fu", P: "fp"}}
	run := func(dir string, crashK int, eio bool) (res simrt.Result, nmut int, before, after *credModel, path string) {
		path = writeInitial(dir, cp.Initial)
		fs, err := credentials.NewFileStore(path)
		if err != nil {
			v = violation("harness", "", "NewFileStore: %v", err)
			return
		}
		m := newCredModel(cp.Initial)
		simos.Reset(simos.Config{Budget: 100000})
		defer simos.Disable()
		res = simrt.Run(rc.NextConfig(), func() {
			for i, op := range cp.Ops {
				if crashK > 0 && i > cp.Victim {
					return
				}
				next := m.clone()
				exp := next.apply(op)
				if i == cp.Victim && cp.Victim >= 0 {
					before, after = m, next
					m0 := simos.MutCount()
					if crashK > 0 && eio {
						simos.SetFailAtMut(crashK) // this disk operation fails with EIO instead; the process lives on
					} else if crashK > 0 {
						simos.SetCrashAtMut(crashK)
					}
					got := execCred(fs, op)
					simos.SetFailAtMut(0)
					nmut = simos.MutCount() - m0
					if crashK > 0 && eio && crashK%2 == 0 && op.Addr != followUp.Addr {
						// the caller gives up on it and stores something for another registry: that save
						// must keep every other entry, whichever of old and new document it started from
						followed = true
						retried = execCred(fs, followUp)
						return
					}
					if crashK > 0 && eio {
						// the caller tries again once the disk behaves: now the operation must take effect
						retried = execCred(fs, op)
						return
					}
					if crashK > 0 {
						return
					}
					if got != exp {
						v = violation("answer-differs-from-model", "", "step %d %s: store answered %+v, model expects %+v", i, op, got, exp)
						return
					}
					m = next
					continue
				}
				got := execCred(fs, op)
				rc.Logf("step %d %s -> %+v (model %+v)", i, op, got, exp)
				if op.Cancelled && got.Err != "" && got.Err != "badformat" {
					// refused with its context: then it has no effect, now or later (the file is compared
					// with the unchanged model after this and after every later step)
					next, exp = m.clone(), got
					for k := 0; k < 3; k++ {
						simrt.Yield("settle")
					}
					info.Probes["call_refused_with_ended_context"]++
				} else if op.Cancelled {
					info.Probes["call_completed_with_ended_context"]++
				}
				if got != exp {
					v = violation("answer-differs-from-model", "", "step %d %s: store answered %+v, model expects %+v\nhistory: %v", i, op, got, exp, cp.Ops[:i+1])
					return
				}
				m = next
				var d string
				simrt.Observe(func() { d = docMatches(path, m, cp.Initial) })
				if d != "" {
					v = violation("config-damaged", "", "after step %d %s: %s\nhistory: %v", i, op, d, cp.Ops[:i+1])
					return
				}
				if m.saved {
					if fi, err := os.Stat(path); err == nil && fi.Mode().Perm() != 0o600 {
						v = violation("wrong-mode", "", "config file mode is %o after a save", fi.Mode().Perm())
						return
					}
					if m.had && len(m.top) > 0 {
						info.Nontrivial = true
					}
				}
			}
		})
		rc.Done(res)
		info.absorb(res)
		if crashK == 0 {
			info.StateHash = strHash(m.key())
		}
		return
	}
	res, nmut, before, after, _ := run(filepath.Join(rc.DiskDir, "k0"), 0, false)
	info.Outcome = string(res.Outcome)
	if v != nil {
		return v
	}
	if res.Outcome != simrt.OK {
		return violation("hang", "", "history did not finish: %s %s %s", res.Outcome, res.Detail, res.PanicValue)
	}
	if cp.Victim < 0 || before == nil {
		return nil
	}
	info.Probes["crash_points"] += nmut
	evals := 1
	for k := 1; k <= nmut; k++ {
		if cp.OnlyK != 0 && k > cp.OnlyK {
			break // see prop_crash.go: earlier points are re-executed to keep the tape aligned
		}
		dir := filepath.Join(rc.DiskDir, fmt.Sprintf("k%d", k))
		resk, _, _, _, path := run(dir, k, false)
		evals++
		info.Faults["crash"]++
		for k2, c2 := range simos.Snapshot().Fired {
			if strings.HasPrefix(k2, "crash-before-") {
				info.Probes[k2] += c2
			}
		}
		if v != nil {
			return v
		}
		if resk.Outcome != simrt.OK {
			return violation("harness", "", "crash run did not complete: %s", resk.Outcome)
		}
		d1 := docMatches(path, before, cp.Initial)
		d2 := docMatches(path, after, cp.Initial)
		if d1 != "" && d2 != "" {
			c2 := *cp
			c2.OnlyK = k
			sc.Params, _ = json.Marshal(c2)
			return violation("crash-damaged-config", "", "victim %s killed before its mutating disk operation %d of %d: the file is neither the old document (%s) nor the new one (%s)\nhistory: %v", cp.Ops[cp.Victim], k, nmut, d1, d2, cp.Ops[:cp.Victim])
		}
		if k > 1 {
			info.Nontrivial = true
		}
		info.MoreHashes = append(info.MoreHashes, simrt.Mix(uint64(k), simrt.Mix(strHash(before.key()), strHash(cp.Ops[cp.Victim].Op))))
		// the same disk operation failing with EIO (the save may report it): old or new document all the same
		dirE := filepath.Join(rc.DiskDir, fmt.Sprintf("e%d", k))
		followed = false
		rese, _, _, _, pathE := run(dirE, k, true)
		evals++
		for k2, c2 := range simos.Snapshot().Fired {
			if strings.HasPrefix(k2, "eio") {
				info.Faults[k2] += c2
			}
		}
		if v != nil {
			return v
		}
		if rese.Outcome != simrt.OK {
			return violation("harness", "", "disk-error run did not complete: %s", rese.Outcome)
		}
		if followed {
			if retried.Err != "" {
				continue
			}
			b2, a2 := before.clone(), after.clone()
			b2.apply(followUp)
			a2.apply(followUp)
			f1, f2 := docMatches(pathE, b2, cp.Initial), docMatches(pathE, a2, cp.Initial)
			if f1 != "" && f2 != "" {
				c2 := *cp
				c2.OnlyK = k
				sc.Params, _ = json.Marshal(c2)
				return violation("entry-lost-after-failed-save", "", "victim %s: its mutating disk operation %d of %d failed with EIO; then %s succeeded, and the file is neither the old document plus that entry (%s) nor the new one plus it (%s)\nhistory: %v", cp.Ops[cp.Victim], k, nmut, followUp, f1, f2, cp.Ops[:cp.Victim])
			}
			info.Probes["other_registry_stored_after_failed_save"]++
			continue
		}
		e1 := docMatches(pathE, before, cp.Initial)
		e2 := docMatches(pathE, after, cp.Initial)
		if retried.Err == "" && e2 != "" {
			c2 := *cp
			c2.OnlyK = k
			sc.Params, _ = json.Marshal(c2)
			return violation("retry-after-disk-error-not-persisted", "", "victim %s: its mutating disk operation %d of %d failed with EIO, the same call was then repeated and reported success, but the file is not the new document (%s)\nhistory: %v", cp.Ops[cp.Victim], k, nmut, e2, cp.Ops[:cp.Victim])
		}
		if e1 != "" && e2 != "" {
			c2 := *cp
			c2.OnlyK = k
			sc.Params, _ = json.Marshal(c2)
			return violation("disk-error-damaged-config", "", "victim %s whose mutating disk operation %d of %d failed with EIO: the file is neither the old document (%s) nor the new one (%s)\nhistory: %v", cp.Ops[cp.Victim], k, nmut, e1, e2, cp.Ops[:cp.Victim])
		}
	}
	info.Evals = evals
	info.CaseHash = simrt.Mix(info.CaseHash, info.StateHash)
	return nil
}

// twoStores: two independent stores whose files live in one directory are used at the
// same time, one task each. Neither may disturb the other: every answer and, after every
// operation, the store's own file must equal that store's sequential model.
func (p *credProp) twoStores(rc *RunCtx, cp *CredParams, info *RunInfo) *Verdict {
	dir := filepath.Join(rc.DiskDir, "two", "cfg")
	os.MkdirAll(dir, 0o700)
	paths := []string{filepath.Join(dir, "config.json"), filepath.Join(dir, "other.json")}
	var stores [2]*credentials.FileStore
	var models [2]*credModel
	for i, pth := range paths {
		if cp.Initial != "" {
			os.WriteFile(pth, []byte(cp.Initial), 0o600)
		}
		fs, err := credentials.NewFileStore(pth)
		if err != nil {
			return violation("harness", "", "NewFileStore: %v", err)
		}
		stores[i], models[i] = fs, newCredModel(cp.Initial)
	}
	var v *Verdict
	var vmu sync.Mutex
	simos.Reset(simos.Config{Budget: 100000})
	defer simos.Disable()
	res := simrt.Run(rc.NextConfig(), func() {
		done := make(chan struct{}, 2)
		for t := 0; t < 2; t++ {
			t := t
			simrt.Go(func() {
				defer func() { done <- struct{}{} }()
				for i, op := range cp.Ops {
					if op.Task != t {
						continue
					}
					next := models[t].clone()
					exp := next.apply(op)
					got := execCred(stores[t], op)
					var d string
					if got == exp {
						simrt.Observe(func() { d = docMatches(paths[t], next, cp.Initial) })
					}
					if got != exp || d != "" {
						vmu.Lock()
						if v == nil {
							if got != exp {
								v = violation("answer-differs-from-model", "", "store %d (file %s), step %d %s: store answered %+v, model expects %+v - while another store was saving %s in the same directory", t, filepath.Base(paths[t]), i, op, got, exp, filepath.Base(paths[1-t]))
							} else {
								v = violation("config-damaged", "", "store %d (file %s) after step %d %s: %s - while another store was saving %s in the same directory", t, filepath.Base(paths[t]), i, op, d, filepath.Base(paths[1-t]))
							}
						}
						vmu.Unlock()
						return
					}
					models[t] = next
				}
			})
		}
		for t := 0; t < 2; t++ {
			<-done
			simrt.Yield("join")
		}
	})
	rc.Done(res)
	info.absorb(res)
	info.Outcome = string(res.Outcome)
	if res.Outcome != simrt.OK {
		return violation("hang", "", "two-store history did not finish: %s %s %s", res.Outcome, res.Detail, res.PanicValue)
	}
	if v != nil {
		return v
	}
	if res.Choices >= 3 {
		info.Nontrivial = true
		info.Probes["two_stores_in_one_directory"]++
	}
	info.StateHash = strHash(models[0].key() + "|" + models[1].key())
	info.CaseHash = simrt.Mix(info.CaseHash, info.StateHash)
	return nil
}

func (p *credProp) concurrent(rc *RunCtx, cp *CredParams, info *RunInfo) *Verdict {
	path := writeInitial(filepath.Join(rc.DiskDir, "c"), cp.Initial)
	fs, err := credentials.NewFileStore(path)
	if err != nil {
		return violation("harness", "", "NewFileStore: %v", err)
	}
	type rec struct {
		op        CredOp
		res       credRes
		call, ret int64
		client    int
	}
	var hist []rec
	var mu sync.Mutex
	var clock int64
	post := map[string]credRes{}
	var postAddrs []string
	simos.Reset(simos.Config{Budget: 100000})
	defer simos.Disable()
	res := simrt.Run(rc.NextConfig(), func() {
		done := make(chan struct{}, cp.Tasks)
		for t := 0; t < cp.Tasks; t++ {
			t := t
			simrt.Go(func() {
				defer func() { done <- struct{}{} }()
				for _, op := range cp.Ops {
					if op.Task != t {
						continue
					}
					mu.Lock()
					clock++
					call := clock
					mu.Unlock()
					got := execCred(fs, op)
					mu.Lock()
					clock++
					hist = append(hist, rec{op, got, call, clock, t})
					mu.Unlock()
				}
			})
		}
		for t := 0; t < cp.Tasks; t++ {
			<-done
			simrt.Yield("join")
		}
		// after quiescence: what the store answers for every address the history named
		for _, op := range cp.Ops {
			if _, seen := post[op.Addr]; !seen && op.Addr != "" {
				postAddrs = append(postAddrs, op.Addr)
				post[op.Addr] = execCred(fs, CredOp{Op: "get", Addr: op.Addr})
			}
		}
	})
	rc.Done(res)
	info.absorb(res)
	info.Outcome = string(res.Outcome)
	if res.Outcome != simrt.OK {
		return violation("hang", "", "concurrent history did not finish: %s %s %s", res.Outcome, res.Detail, res.PanicValue)
	}
	if res.Choices >= 3 {
		info.Nontrivial = true
	}
	model := porcupine.Model{
		Init: func() interface{} { return newCredModel(cp.Initial) },
		Step: func(state, input, output interface{}) (bool, interface{}) {
			m := state.(*credModel).clone()
			op := input.(CredOp)
			if op.Op == "readback" {
				// the file and the store's own answers after quiescence, explained by one and the same order
				if docMatches(path, m, cp.Initial) != "" {
					return false, m
				}
				for _, a := range postAddrs {
					if m.clone().apply(CredOp{Op: "get", Addr: a}) != post[a] {
						return false, m
					}
				}
				return true, m
			}
			exp := m.apply(op)
			got := output.(credRes)
			if op.Op == "get" {
				// only the final file is promised to be sequentially explainable
				return true, m
			}
			return exp == got, m
		},
		Equal: func(a, b interface{}) bool { return a.(*credModel).key() == b.(*credModel).key() },
	}
	var ops []porcupine.Operation
	for _, h := range hist {
		ops = append(ops, porcupine.Operation{ClientId: h.client, Input: h.op, Call: h.call, Output: h.res, Return: h.ret})
	}
	ops = append(ops, porcupine.Operation{ClientId: cp.Tasks, Input: CredOp{Op: "readback"}, Call: clock + 1, Output: credRes{}, Return: clock + 2})
	switch porcupine.CheckOperationsTimeout(model, ops, 20*time.Second) {
	case porcupine.Illegal:
		var lines []string
		for _, h := range hist {
			lines = append(lines, fmt.Sprintf("t%d [%d,%d] %s -> %+v", h.client, h.call, h.ret, h.op, h.res))
		}
		b, _ := os.ReadFile(path)
		for _, a := range postAddrs {
			lines = append(lines, fmt.Sprintf("afterwards Get(%s) -> %+v", a, post[a]))
		}
		return violation("not-sequentially-explainable", "", "the config file and the store's answers after quiescence equal no sequential order of the %d operations\n%s\nfile: %s", len(hist), strings.Join(lines, "\n"), b)
	case porcupine.Unknown:
		info.Probes["porcupine_timeout"]++
	}
	// a Get never returns a credential nobody stored
	for _, h := range hist {
		if h.op.Op != "get" || h.res.Err != "" {
			continue
		}
		ok := h.res.Cred == (CredSpec{})
		m0 := newCredModel(cp.Initial)
		if m0.apply(h.op).Cred == h.res.Cred {
			ok = true
		}
		for _, o := range hist {
			if o.op.Op == "put" && o.op.Addr == h.op.Addr && o.op.Cred == h.res.Cred {
				ok = true
			}
		}
		if !ok {
			return violation("get-returned-garbage", "", "Get(%s) returned %+v which no Put stored and the initial document does not hold", h.op.Addr, h.res.Cred)
		}
	}
	info.Probes["porcupine_checked"]++
	b, _ := os.ReadFile(path)
	info.StateHash = strHash(string(b))
	info.CaseHash = simrt.Mix(info.CaseHash, info.StateHash)
	return nil
}
