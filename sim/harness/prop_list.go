package harness

import (
	"context"
	"encoding/json"
	"errors"
	"fmt"
	"io"
	"net/http"
	"os"
	"path/filepath"
	"sort"
	"strings"

	"github.com/opencontainers/go-digest"
	ocispec "github.com/opencontainers/image-spec/specs-go/v1"
	"oras.land/oras-go/v2/content/oci"
	"oras.land/oras-go/v2/errdef"
	orasreg "oras.land/oras-go/v2/registry"
	"oras.land/oras-go/v2/registry/remote"
	"oras.land/oras-go/v2/zsim/simos"
	"oras.land/oras-go/v2/zsim/simrt"
)

// ListParams: one listing scenario (C15). What is sampled is the peer's legal
// freedom: page split, Link form, filtering, body size around the limit.
type ListParams struct {
	Kind       string     `json:"kind"` // tags | repositories | referrers | ocitags
	Items      []string   `json:"items"`
	ATypes     []string   `json:"atypes,omitempty"` // referrers: artifact type per item
	ClientN    int        `json:"client_n,omitempty"`
	Profile    RegProfile `json:"profile"`
	Last       string     `json:"last,omitempty"`
	Helper     bool       `json:"helper,omitempty"`       // go through registry.Tags / registry.Referrers, which collect all pages
	FailAtPage int        `json:"fail_at_page,omitempty"` // callback fails at this page (1-based; 0 = never)
	// CancelAtPage: the context ends while the callback handles this page (it returns nil): a listing
	// that then reports success must have delivered everything
	CancelAtPage int    `json:"cancel_at_page,omitempty"`
	FailWith     string `json:"fail_with,omitempty"` // the callback's error wraps this sentinel error of the library ("" = none)
	MaxMeta      int64  `json:"max_meta,omitempty"`
	Pad          int    `json:"pad,omitempty"`
	FilterAT     string `json:"filter_at,omitempty"`
	NoAPI        bool   `json:"no_api,omitempty"` // referrers via tag schema
	// ocitags: tasks that list while the tags are being set and removed, and the tags removed again
	Listers int   `json:"listers,omitempty"`
	Untag   []int `json:"untag,omitempty"`
	// DeleteFail (with Listers): at the end the tagged content is deleted, and the k-th mutating
	// disk operation of that Delete - they all belong to its index save - fails: the Delete is
	// refused and no listing may miss a tag because of it
	DeleteFail int `json:"delete_fail,omitempty"`
	// Reopen (ocitags): the listing that is judged comes from a store opened afresh on the directory ("new", "fs")
	Reopen string `json:"reopen,omitempty"`
}

type listProp struct{}

func init() { register(&listProp{}) }

func (p *listProp) ID() string { return "C15" }

func (p *listProp) Rule() string {
	return "scenario = item list + client page size + server page cap + Link header form + last + callback failure at page j (a plain error, or one that wraps a sentinel error of the library: not-found, already-exists, unsupported, size-exceeds-limit, EOF) + artifact-type filter applied by the server (header/annotation) or not + document padding around MaxMetadataBytes, for Tags, Repositories, Referrers (API and tag schema) and the OCI-layout Tags listing (half of those with 1-2 tasks listing while the tags are set and removed: each such listing is sorted, duplicate-free, holds every tag whose Tag had returned and whose Untag had not begun, and nothing that was never set or whose Untag had returned; in 40% of those a Delete of the tagged content follows whose index save meets a disk error - it is refused and no listing may miss a tag because of it); non-trivial = the result spans >=2 pages, or a filter/limit/last/callback failure is in play; distinct = distinct (request trace hash, delivered list hash)"
}

func (p *listProp) Components() map[string][]string {
	return map[string][]string{
		"real":        {"remote.Repository.Tags/Referrers", "remote.Registry.Repositories", "registry/remote/utils.go (parseLink, limitReader)", "net/http.Client", "content/oci Tags"},
		"substituted": {},
		"stub":        {"simulated registry (RoundTripper): pagination, Link forms, filtering, padded documents; counts bytes consumed from every response body"},
	}
}

func (p *listProp) Assumptions() []string {
	return []string{
		"a Link header carries a single link (the distribution specification defines one); several links in one header are not generated",
		"this property has no interleaving in its quantifier: one task, the simulated dimension is the peer's behaviour",
	}
}

func (p *listProp) Gen(r *Rand, tier string, idx int) any {
	lp := &ListParams{}
	lp.Kind = pick(r, []string{"tags", "tags", "repositories", "referrers", "referrers", "ocitags"})
	n := r.Intn(14)
	if r.Chance(0.1) {
		n = r.Range(20, 60)
	}
	seen := map[string]bool{}
	for len(lp.Items) < n {
		var it string
		switch lp.Kind {
		case "repositories":
			it = fmt.Sprintf("repo%d/sub%d", r.Intn(40), r.Intn(3))
		default:
			it = pick(r, []string{"v", "rel-", "a", "Z", "latest", "0."}) + fmt.Sprint(r.Intn(50))
		}
		if !seen[it] {
			seen[it] = true
			lp.Items = append(lp.Items, it)
		}
	}
	if lp.Kind == "referrers" {
		for range lp.Items {
			lp.ATypes = append(lp.ATypes, pick(r, []string{"application/vnd.example.sbom", "application/vnd.example.sig", "", "index", "index"}))
		}
		if r.Chance(0.5) {
			lp.FilterAT = pick(r, []string{"application/vnd.example.sbom", "application/vnd.example.sig", "application/x-none"})
		}
		lp.NoAPI = r.Chance(0.25)
	}
	if r.Chance(0.6) {
		lp.ClientN = r.Range(1, 7)
	}
	lp.Profile = RegProfile{ReferrersAPI: !lp.NoAPI, DigestHeader: r.Bool(), LinkForm: r.Intn(8), NoContentLength: r.Chance(0.3)}
	if lp.NoAPI {
		// by-tag fetches need a digest header or a Content-Length to build a descriptor (client requirement, see C13)
		lp.Profile.DigestHeader = true
	}
	if r.Chance(0.6) {
		c := r.Range(1, 6)
		lp.Profile.TagCap, lp.Profile.RefCap, lp.Profile.CatalogCap = c, c, c
	}
	if lp.FilterAT != "" {
		lp.Profile.ServerFilter = pick(r, []string{"", "header", "annotation"})
	}
	if len(lp.Items) > 0 && r.Chance(0.3) && (lp.Kind == "tags" || lp.Kind == "repositories" || lp.Kind == "ocitags") {
		if r.Bool() {
			lp.Last = pick(r, lp.Items)
		} else {
			lp.Last = pick(r, []string{"a", "m", "v2", "zzz", "0"})
		}
	}
	if r.Chance(0.1) {
		lp.CancelAtPage = r.Range(1, 3)
	} else if r.Chance(0.2) {
		lp.FailAtPage = r.Range(1, 3)
		if r.Bool() {
			lp.FailWith = pick(r, []string{"not-found", "not-found", "already-exists", "unsupported", "size-exceeds", "eof"})
		}
	}
	if lp.Kind == "ocitags" && r.Chance(0.4) {
		lp.Reopen = pick(r, []string{"new", "fs"})
	}
	if lp.Kind == "ocitags" && len(lp.Items) > 0 && r.Chance(0.5) {
		lp.Listers = r.Range(1, 2)
		for k := r.Range(0, 3); k > 0; k-- {
			lp.Untag = append(lp.Untag, r.Intn(len(lp.Items)))
		}
		if r.Chance(0.4) {
			lp.DeleteFail = r.Range(1, 3)
		}
	}
	if (lp.Kind == "tags" || lp.Kind == "referrers") && lp.Last == "" && lp.FailAtPage == 0 && r.Chance(0.25) {
		lp.Helper = true
	}
	if r.Chance(0.35) && lp.Kind != "ocitags" {
		lp.MaxMeta = int64(r.Range(200, 1500))
		if r.Chance(0.6) {
			lp.Pad = int(lp.MaxMeta) + r.Range(-250, 250)
			if lp.Pad < 0 {
				lp.Pad = 0
			}
		}
	}
	return lp
}

func (p *listProp) Shrink(raw json.RawMessage) []json.RawMessage {
	var lp ListParams
	if json.Unmarshal(raw, &lp) != nil {
		return nil
	}
	var out []json.RawMessage
	for i := len(lp.Items) - 1; i >= 0; i-- {
		c := lp
		c.Items = append(append([]string{}, lp.Items[:i]...), lp.Items[i+1:]...)
		if len(lp.ATypes) == len(lp.Items) {
			c.ATypes = append(append([]string{}, lp.ATypes[:i]...), lp.ATypes[i+1:]...)
		}
		c.Untag = nil
		for _, u := range lp.Untag {
			if u < i {
				c.Untag = append(c.Untag, u)
			} else if u > i {
				c.Untag = append(c.Untag, u-1)
			}
		}
		b, _ := json.Marshal(c)
		out = append(out, b)
	}
	return out
}

var errCallback = errors.New("callback failure E")

// what a callback may well return: its own error around one of the library's sentinel errors
// (it fetched a listed item that is gone, say)
var errCallbackWraps = map[string]error{
	"not-found":      fmt.Errorf("%w: item: %w", errCallback, errdef.ErrNotFound),
	"already-exists": fmt.Errorf("%w: item: %w", errCallback, errdef.ErrAlreadyExists),
	"unsupported":    fmt.Errorf("%w: item: %w", errCallback, errdef.ErrUnsupported),
	"size-exceeds":   fmt.Errorf("%w: item: %w", errCallback, errdef.ErrSizeExceedsLimit),
	"eof":            fmt.Errorf("%w: item: %w", errCallback, io.EOF),
}

func (p *listProp) Run(rc *RunCtx, sc *Scenario) *RunInfo {
	info := newInfo()
	var lp ListParams
	if err := json.Unmarshal(sc.Params, &lp); err != nil {
		info.V = violation("harness", "", "bad params: %v", err)
		return info
	}
	var v *Verdict
	rc.Bubble(func() { v = p.run(rc, &lp, info) })
	info.V = v
	return info
}

func (p *listProp) run(rc *RunCtx, lp *ListParams, info *RunInfo) *Verdict {
	ctx, cancelCtx := context.WithCancel(context.Background())
	defer cancelCtx()
	const host = "registry.test"
	const repoName = "lib/app"
	reg := NewSimRegistry(host, lp.Profile)
	reg.PadBody = lp.Pad
	client := &http.Client{Transport: reg}
	var expected []string
	var delivered [][]string
	var callErr error
	pages := 0
	fn := func(items []string) error {
		pages++
		delivered = append(delivered, append([]string{}, items...))
		if lp.CancelAtPage > 0 && pages == lp.CancelAtPage {
			cancelCtx() // the caller gives up while it handles this page, and returns nil from the callback
		}
		if lp.FailAtPage > 0 && pages == lp.FailAtPage {
			if w, ok := errCallbackWraps[lp.FailWith]; ok {
				return w
			}
			return errCallback
		}
		return nil
	}
	var subject ocispec.Descriptor
	var refDigests map[string]string // referrer digest -> item label
	switch lp.Kind {
	case "tags":
		reg.Known[repoName] = true
		md := reg.PutManifest(repoName, mtOCIManifest, []byte(`{"schemaVersion":2,"mediaType":"`+mtOCIManifest+`","config":{"mediaType":"application/vnd.oci.empty.v1+json","digest":"sha256:44136fa355b3678a1146ad16f7e8649e94fb4fc21fe77e8310c060f61caaff8a","size":2},"layers":[]}`))
		_ = md
		for _, t := range lp.Items {
			reg.PutManifest(repoName, mtOCIManifest, []byte(`{"schemaVersion":2,"mediaType":"`+mtOCIManifest+`","config":{"mediaType":"application/vnd.oci.empty.v1+json","digest":"sha256:44136fa355b3678a1146ad16f7e8649e94fb4fc21fe77e8310c060f61caaff8a","size":2},"layers":[]}`), t)
		}
		all := reg.Tags(repoName)
		for _, t := range all {
			if lp.Last == "" || t > lp.Last {
				expected = append(expected, t)
			}
		}
	case "repositories":
		for _, name := range lp.Items {
			reg.PutBlob(name, []byte("x"))
		}
		all := append([]string{}, lp.Items...)
		sort.Strings(all)
		for _, t := range all {
			if lp.Last == "" || t > lp.Last {
				expected = append(expected, t)
			}
		}
	case "referrers":
		reg.Known[repoName] = true
		sub := []byte(`{"schemaVersion":2,"mediaType":"` + mtOCIManifest + `","config":{"mediaType":"application/vnd.oci.empty.v1+json","digest":"sha256:44136fa355b3678a1146ad16f7e8649e94fb4fc21fe77e8310c060f61caaff8a","size":2},"layers":[],"annotations":{"role":"subject"}}`)
		sd := reg.PutManifest(repoName, mtOCIManifest, sub)
		subject = ocispec.Descriptor{MediaType: mtOCIManifest, Digest: sd, Size: int64(len(sub))}
		refDigests = map[string]string{}
		var indexEntries []ocispec.Descriptor
		for i, it := range lp.Items {
			if lp.ATypes[i] == "index" {
				// an index that refers to the subject: it has no artifact type (the entry the registry
				// lists for it carries none) and here no annotations either
				ix := ocispec.Index{MediaType: mtOCIIndex, Subject: &subject, Manifests: []ocispec.Descriptor{{MediaType: mtOCIManifest, Digest: digest.FromString("child-of-" + it), Size: 7}}}
				ix.SchemaVersion = 2
				b, _ := json.Marshal(ix)
				d := reg.PutManifest(repoName, mtOCIIndex, b)
				refDigests[d.String()] = it
				indexEntries = append(indexEntries, ocispec.Descriptor{MediaType: mtOCIIndex, Digest: d, Size: int64(len(b))})
				if lp.FilterAT == "" {
					expected = append(expected, it)
				}
				continue
			}
			m := ocispec.Manifest{MediaType: mtOCIManifest, ArtifactType: lp.ATypes[i], Subject: &subject,
				Config:      ocispec.Descriptor{MediaType: "application/vnd.oci.empty.v1+json", Digest: "sha256:44136fa355b3678a1146ad16f7e8649e94fb4fc21fe77e8310c060f61caaff8a", Size: 2},
				Layers:      []ocispec.Descriptor{},
				Annotations: map[string]string{"item": it}}
			m.SchemaVersion = 2
			b, _ := json.Marshal(m)
			d := reg.PutManifest(repoName, mtOCIManifest, b)
			refDigests[d.String()] = it
			at := lp.ATypes[i]
			if at == "" {
				at = "application/vnd.oci.empty.v1+json"
			}
			indexEntries = append(indexEntries, ocispec.Descriptor{MediaType: mtOCIManifest, Digest: d, Size: int64(len(b)), ArtifactType: at, Annotations: m.Annotations})
			if lp.FilterAT == "" || at == lp.FilterAT {
				expected = append(expected, it)
			}
		}
		if lp.NoAPI {
			// the registry has no Referrers API: a referrers index under the tag schema
			ix := ocispec.Index{MediaType: mtOCIIndex, Manifests: indexEntries}
			ix.SchemaVersion = 2
			if ix.Manifests == nil {
				ix.Manifests = []ocispec.Descriptor{}
			}
			b, _ := json.Marshal(ix)
			reg.PutManifest(repoName, mtOCIIndex, b, strings.Replace(sd.String(), ":", "-", 1))
		}
	case "ocitags":
	}

	var res simrt.Result
	var ociErr error
	var staleV *Verdict
	var deliveredDescs []ocispec.Descriptor
	main := func() {
		switch lp.Kind {
		case "tags":
			repo, _ := remote.NewRepository(host + "/" + repoName)
			repo.Client, repo.TagListPageSize, repo.MaxMetadataBytes = client, lp.ClientN, lp.MaxMeta
			if lp.Helper {
				var all []string
				if all, callErr = orasreg.Tags(ctx, repo); callErr == nil {
					callErr = fn(all)
				}
				return
			}
			callErr = repo.Tags(ctx, lp.Last, fn)
		case "repositories":
			r, _ := remote.NewRegistry(host)
			r.Client, r.RepositoryListPageSize, r.MaxMetadataBytes = client, lp.ClientN, lp.MaxMeta
			callErr = r.Repositories(ctx, lp.Last, fn)
		case "referrers":
			repo, _ := remote.NewRepository(host + "/" + repoName)
			repo.Client, repo.ReferrerListPageSize, repo.MaxMetadataBytes = client, lp.ClientN, lp.MaxMeta
			if lp.Helper {
				var ds []ocispec.Descriptor
				if ds, callErr = orasreg.Referrers(ctx, repo, subject, lp.FilterAT); callErr == nil {
					var items []string
					for _, d := range ds {
						items = append(items, refDigests[d.Digest.String()])
					}
					callErr = fn(items)
				}
				return
			}
			callErr = repo.Referrers(ctx, subject, lp.FilterAT, func(ds []ocispec.Descriptor) error {
				var items []string
				for _, d := range ds {
					items = append(items, refDigests[d.Digest.String()])
				}
				deliveredDescs = append(deliveredDescs, ds...) // as handed over: their maps are looked at again at the end
				return fn(items)
			})
		case "ocitags":
			s, err := oci.New(filepath.Join(rc.DiskDir, "layout"))
			if err != nil {
				ociErr = err
				return
			}
			blob := []byte("tagged")
			d := ocispec.Descriptor{MediaType: mtOctet, Digest: digest.FromBytes(blob), Size: int64(len(blob))}
			if err := s.Push(ctx, d, strings.NewReader(string(blob))); err != nil {
				ociErr = err
				return
			}
			// tagged/untagged: how many of lp.Items / lp.Untag are done; untagging: how many were begun
			tagged, untagging, untagged := 0, 0, 0
			finished := false
			ldone := make(chan struct{}, lp.Listers)
			for l := 0; l < lp.Listers; l++ {
				simrt.Go(func() {
					defer func() { ldone <- struct{}{} }()
					for round := 0; round < 6 && staleV == nil; round++ {
						last := finished
						k, u := tagged, untagged
						var got []string
						err := s.Tags(ctx, "", func(ts []string) error { got = append(got, ts...); return nil })
						k2, u2 := tagged, untagging
						if k2 < len(lp.Items) {
							k2++ // the Tag under way may be visible already
						}
						if err != nil {
							staleV = violation("unexpected-error", "", "ocitags: listing beside Tag/Untag failed: %v", err)
							return
						}
						if !sort.StringsAreSorted(got) {
							staleV = violation("wrong-items", "", "ocitags: listing beside Tag/Untag is not sorted: %v", got)
							return
						}
						in := map[string]bool{}
						for i, t := range got {
							if i > 0 && got[i-1] == t {
								staleV = violation("wrong-items", "", "ocitags: listing beside Tag/Untag holds %q twice: %v", t, got)
								return
							}
							in[t] = true
						}
						// must: set before the listing began and no removal begun before it ended
						// may: set (or being set) before it ended and removal not complete before it began
						must, may := map[string]bool{}, map[string]bool{}
						for _, t := range lp.Items[:k] {
							must[t] = true
						}
						for _, t := range lp.Items[:k2] {
							may[t] = true
						}
						for _, i := range lp.Untag[:u2] {
							delete(must, lp.Items[i])
						}
						for _, i := range lp.Untag[:u] {
							delete(may, lp.Items[i])
						}
						for t := range must {
							if !in[t] {
								staleV = violation("stale-listing", "", "ocitags: Tag(%q) had returned and no Untag of it had begun, a listing started afterwards omits it: %v", t, got)
								return
							}
						}
						for t := range in {
							if !may[t] {
								staleV = violation("stale-listing", "", "ocitags: a listing delivers %q, which was not set (or whose Untag had returned) when it began: %v", t, got)
								return
							}
						}
						info.Probes["oci_listing_beside_tag_untag"]++
						if last {
							return
						}
						simrt.Yield("lister")
					}
				})
			}
			for _, t := range lp.Items {
				if err := s.Tag(ctx, d, t); err != nil {
					ociErr = err
					break
				}
				tagged++
			}
			for _, i := range lp.Untag {
				untagging++
				if err := s.Untag(ctx, lp.Items[i]); err != nil && !errors.Is(err, errdef.ErrNotFound) {
					ociErr = err
					break
				}
				untagged++
			}
			if lp.DeleteFail > 0 && ociErr == nil {
				simos.SetFailAtMut(lp.DeleteFail)
				derr := s.Delete(ctx, d)
				simos.SetFailAtMut(0)
				if derr == nil {
					ociErr = errors.New("the Delete that was to fail succeeded")
				} else {
					info.Probes["oci_listing_beside_refused_delete"]++
				}
			}
			finished = true
			for l := 0; l < lp.Listers; l++ {
				<-ldone
			}
			if ociErr != nil {
				return
			}
			var lister interface {
				Tags(ctx context.Context, last string, fn func(tags []string) error) error
			} = s
			switch lp.Reopen {
			case "new":
				// another process opens the directory: all the names of the one blob are there
				s2, err := oci.New(filepath.Join(rc.DiskDir, "layout"))
				if err != nil {
					ociErr = err
					return
				}
				lister = s2
				info.Probes["oci_listing_after_reopen"]++
			case "fs":
				s2, err := oci.NewFromFS(ctx, os.DirFS(filepath.Join(rc.DiskDir, "layout")))
				if err != nil {
					ociErr = err
					return
				}
				lister = s2
				info.Probes["oci_listing_after_reopen"]++
			}
			callErr = lister.Tags(ctx, lp.Last, fn)
		}
	}
	rc.MaxSteps = 4000 // a listing that needs more exchanges than this is looping
	if lp.Kind == "ocitags" {
		simos.Reset(simos.Config{Budget: 200000})
		defer simos.Disable()
	}
	res = simrt.Run(rc.NextConfig(), main)
	rc.Done(res)
	info.absorb(res)
	info.Outcome = string(res.Outcome)
	if res.Outcome != simrt.OK {
		return violation("hang-or-panic", "", "listing did not finish: %s %s %s", res.Outcome, res.Detail, res.PanicValue)
	}
	if ociErr != nil {
		info.Outcome = "setup-skip"
		return nil
	}
	if staleV != nil {
		return staleV
	}
	if lp.Kind == "referrers" && !lp.NoAPI {
		// what was handed to the callback is, and stays, what the registry lists for that manifest
		model := map[string]ocispec.Descriptor{}
		for _, d := range reg.ReferrersModel(repoName, subject.Digest) {
			model[d.Digest.String()] = d
		}
		for _, d := range deliveredDescs {
			m, ok := model[d.Digest.String()]
			if !ok {
				continue
			}
			same := d.ArtifactType == m.ArtifactType && len(d.Annotations) == len(m.Annotations)
			for k, v := range m.Annotations {
				if d.Annotations[k] != v {
					same = false
				}
			}
			if !same {
				return violation("wrong-item-metadata", "", "referrers: %s was delivered (or later became) artifactType=%q annotations=%v, the registry lists artifactType=%q annotations=%v", refDigests[d.Digest.String()], d.ArtifactType, d.Annotations, m.ArtifactType, m.Annotations)
			}
		}
	}
	if lp.Kind == "ocitags" {
		gone := map[string]bool{}
		for _, i := range lp.Untag {
			gone[lp.Items[i]] = true
		}
		all := append([]string{}, lp.Items...)
		sort.Strings(all)
		for _, t := range all {
			if (lp.Last == "" || t > lp.Last) && !gone[t] {
				expected = append(expected, t)
			}
		}
	}
	var flat []string
	for _, pg := range delivered {
		flat = append(flat, pg...)
	}
	what := fmt.Sprintf("%s(items=%d clientN=%d cap=%d link=%d last=%q failAt=%d maxMeta=%d pad=%d filter=%q serverFilter=%q noAPI=%v)", lp.Kind, len(lp.Items), lp.ClientN, lp.Profile.TagCap, lp.Profile.LinkForm, lp.Last, lp.FailAtPage, lp.MaxMeta, lp.Pad, lp.FilterAT, lp.Profile.ServerFilter, lp.NoAPI)
	// spec conformance of the requests
	if len(reg.Invalid) > 0 {
		return violation("non-conforming-request", "", "%s: %s", what, reg.Invalid[0])
	}
	// bounded reads
	limit := lp.MaxMeta
	if limit <= 0 {
		limit = 4 * 1024 * 1024
	}
	for n, c := range reg.BodyRead {
		if int64(*c) > limit {
			return violation("over-read", "", "%s: %d bytes were consumed from the body of response %d, MaxMetadataBytes is %d", what, *c, n, limit)
		}
	}
	// never duplicates / reordering / foreign items
	if !isPrefix(flat, expected) {
		return violation("wrong-items", "", "%s: delivered %v, registry order is %v", what, flat, expected)
	}
	if callErr == nil {
		if len(flat) != len(expected) {
			return violation("truncated-listing", "", "%s: returned nil after delivering %d of %d items: %v", what, len(flat), len(expected), flat)
		}
		if lp.FailAtPage > 0 && pages >= lp.FailAtPage {
			return violation("callback-error-lost", "", "%s: the callback failed at page %d but the listing returned nil", what, lp.FailAtPage)
		}
	} else {
		if lp.FailAtPage > 0 && pages == lp.FailAtPage {
			if !errors.Is(callErr, errCallback) {
				return violation("callback-error-lost", "", "%s: callback returned E at page %d but the listing returned %v", what, lp.FailAtPage, callErr)
			}
			info.Probes["callback_failure_returned"]++
		} else if pages > lp.FailAtPage && lp.FailAtPage > 0 {
			return violation("continued-after-callback-error", "", "%s: %d pages delivered after the callback failed at page %d", what, pages, lp.FailAtPage)
		} else if lp.CancelAtPage > 0 && pages >= lp.CancelAtPage && (errors.Is(callErr, context.Canceled)) {
			info.Probes["listing_ended_by_cancellation_between_pages"]++
		} else {
			// a failure is legitimate only if a document did not fit in MaxMetadataBytes
			over := false
			for _, rq := range reg.Requests() {
				if int64(rq.Resp) > limit {
					over = true
				}
			}
			if !over {
				return violation("unexpected-error", "", "%s: listing failed: %v", what, callErr)
			}
			info.Probes["oversized_document_refused"]++
		}
	}
	if pages >= 2 || lp.FilterAT != "" || lp.MaxMeta > 0 || lp.Last != "" || lp.FailAtPage > 0 {
		info.Nontrivial = true
	}
	if pages >= 2 {
		info.Probes["multi_page"]++
	}
	info.StateHash = strHash(strings.Join(flat, ","))
	info.CaseHash = simrt.Mix(info.CaseHash, info.StateHash)
	info.Sample = map[string]any{"scenario": what, "pages": pages, "delivered": len(flat), "err": fmt.Sprint(callErr)}
	return nil
}

func isPrefix(a, b []string) bool {
	if len(a) > len(b) {
		return false
	}
	for i := range a {
		if a[i] != b[i] {
			return false
		}
	}
	return true
}
