// Package harness drives oras-go under the deterministic simulator. It is copied
// into the scratch module as oras.land/oras-go/v2/zsim/harness and built as a
// test binary (testing/synctest needs a *testing.T).
package harness

import (
	"encoding/json"
	"fmt"
	"hash/fnv"
	"os"
	"path/filepath"
	"runtime"
	"sort"
	"strconv"
	"strings"
	"testing"
	"testing/synctest"
	"time"

	"oras.land/oras-go/v2/zsim/simrt"
	"oras.land/oras-go/v2/zsim/simsync"
)

// ---------- PRNG ----------

type Rand struct{ s uint64 }

func NewRand(seed uint64) *Rand { return &Rand{s: seed} }

func (r *Rand) U64() uint64 {
	r.s += 0x9e3779b97f4a7c15
	z := r.s
	z = (z ^ (z >> 30)) * 0xbf58476d1ce4e5b9
	z = (z ^ (z >> 27)) * 0x94d049bb133111eb
	return z ^ (z >> 31)
}
func (r *Rand) Intn(n int) int {
	if n <= 0 {
		return 0
	}
	return int(r.U64() % uint64(n))
}
func (r *Rand) Range(lo, hi int) int { return lo + r.Intn(hi-lo+1) } // inclusive
func (r *Rand) Bool() bool           { return r.U64()&1 == 1 }
func (r *Rand) Chance(p float64) bool {
	return float64(r.U64()>>11)/float64(1<<53) < p
}
func (r *Rand) Fork() *Rand { return NewRand(r.U64()) }

func pick[T any](r *Rand, xs []T) T { return xs[r.Intn(len(xs))] }

// ---------- scenario ----------

type SchedSpec struct {
	Policy      int      `json:"policy"`
	PCTDepth    int      `json:"pct_depth,omitempty"`
	Seed        uint64   `json:"seed"`
	Decisions   []uint64 `json:"decisions,omitempty"` // explicit tape (replay / minimised); missing entries are 0
	Explicit    bool     `json:"explicit,omitempty"`  // use Decisions even if empty
	ShuffleMaps bool     `json:"shuffle_maps,omitempty"`
	// MemYields: statements that append to a slice are scheduling points too (a task may be
	// preempted between growing a possibly shared backing array and reading it back)
	MemYields bool `json:"mem_yields,omitempty"`
}

type WarmupSpec struct {
	Base   uint64 `json:"base"`
	Tier   string `json:"tier"`
	Shard  int    `json:"shard"`
	Shards int    `json:"shards"`
	Upto   int    `json:"upto"`
	Regen  bool   `json:"regen,omitempty"`
}

type Scenario struct {
	Prop   string          `json:"prop"`
	Seed   uint64          `json:"seed"`
	Index  int             `json:"index"`
	Sched  SchedSpec       `json:"sched"`
	Params json.RawMessage `json:"params"`
	// Warmup (replay files only): the violation depends on state that the code under test
	// keeps across calls at package level. The scenarios the same worker had run before
	// (indices Shard, Shard+Shards, ... below Upto of batch Base/Tier) are executed first,
	// unjudged; with Regen the failing scenario itself is generated again as number Upto.
	Warmup *WarmupSpec `json:"warmup,omitempty"`
	// filled in when written as a replay file
	Class  string `json:"violation_class,omitempty"`
	Detail string `json:"violation_detail,omitempty"`
}

func (sc *Scenario) simConfig() simrt.Config {
	c := simrt.Config{Seed: sc.Sched.Seed, Policy: simrt.Policy(sc.Sched.Policy), PCTDepth: sc.Sched.PCTDepth}
	if sc.Sched.Explicit || sc.Sched.Decisions != nil {
		c.Replay = sc.Sched.Decisions
		if c.Replay == nil {
			c.Replay = []uint64{}
		}
	}
	return c
}

// Verdict of one run. Class == "" means the property held.
type Verdict struct {
	Class     string `json:"class"`
	Detail    string `json:"detail"`
	Signature string `json:"signature,omitempty"` // class + structural trigger; matched against known findings
}

func violation(class, sig, format string, a ...any) *Verdict {
	return &Verdict{Class: class, Signature: sig, Detail: fmt.Sprintf(format, a...)}
}

// RunInfo is what a property reports about one executed scenario.
type RunInfo struct {
	V          *Verdict
	Nontrivial bool
	CaseHash   uint64 // identifies (interleaving, fault plan, workload) for distinct counting
	StateHash  uint64
	Faults     map[string]int
	Probes     map[string]int
	Steps      int
	SimTime    time.Duration
	Unknown    int
	Outcome    string
	Decisions  []uint64 // decisions actually drawn (first simulated phase)
	Sample     any
	Evals      int      // executions performed by this scenario (0 = 1)
	MoreHashes []uint64 // additional distinct non-trivial cases (e.g. one per crash point)
}

func newInfo() *RunInfo {
	return &RunInfo{Faults: map[string]int{}, Probes: map[string]int{}}
}

func (ri *RunInfo) absorb(res simrt.Result) {
	ri.Steps += res.Steps
	ri.SimTime += res.SimElapsed
	ri.Unknown += res.Unknown
	if res.Choices >= 3 && res.Tasks >= 3 {
		ri.Nontrivial = true
	}
	ri.Probes["sched_choice_points"] += res.Choices
	ri.CaseHash = simrt.Mix(ri.CaseHash, res.TraceHash)
}

// Property is one checkable property.
type Property interface {
	ID() string
	// Gen draws the parameters of scenario number idx.
	Gen(r *Rand, tier string, idx int) any
	// Run executes the scenario. It is called outside any bubble and creates
	// its own bubble(s) through ctx.Bubble.
	Run(rc *RunCtx, sc *Scenario) *RunInfo
	// Shrink proposes simpler parameter sets (may return nil).
	Shrink(params json.RawMessage) []json.RawMessage
	Rule() string
	Components() map[string][]string
	Assumptions() []string
}

var registry = map[string]Property{}

func register(p Property) { registry[p.ID()] = p }

// RunCtx carries per-run facilities.
type RunCtx struct {
	T       *testing.T
	DiskDir string // fresh directory on tmpfs for this run
	KeepLog bool
	Log     []string
	// decision tape spanning every simulated execution of the scenario
	sc          *Scenario
	cursor      int
	execs       int
	Recorded    []uint64
	MaxSteps    int         // scheduling-step cap for the executions of this run (0 = simrt default)
	regProfile  *RegProfile // capability profile for simulated registries created by makeStore
	refPageSize int         // Repository.ReferrerListPageSize of the repositories created by makeStore
}

// NextConfig returns the scheduler configuration for the next simulated
// execution of the scenario. With an explicit tape the execution continues
// where the previous one stopped; otherwise it draws from a seed derived from
// the scenario's schedule seed and the execution number.
func (rc *RunCtx) NextConfig() simrt.Config {
	sc := rc.sc
	c := simrt.Config{Seed: simrt.Mix(sc.Sched.Seed, uint64(rc.execs)), Policy: simrt.Policy(sc.Sched.Policy), PCTDepth: sc.Sched.PCTDepth, KeepLog: rc.KeepLog, MaxSteps: rc.MaxSteps, MemYields: sc.Sched.MemYields}
	rc.execs++
	if sc.Sched.Explicit || sc.Sched.Decisions != nil {
		if rc.cursor < len(sc.Sched.Decisions) {
			c.Replay = sc.Sched.Decisions[rc.cursor:]
		} else {
			c.Replay = []uint64{}
		}
	}
	return c
}

// Done records what an execution consumed.
func (rc *RunCtx) Done(res simrt.Result) {
	rc.cursor += len(res.Decisions)
	rc.Recorded = append(rc.Recorded, res.Decisions...)
	if rc.KeepLog {
		rc.Log = append(rc.Log, res.Log...)
		rc.Log = append(rc.Log, fmt.Sprintf("== execution %d done: outcome=%s steps=%d decisions=%d", rc.execs, res.Outcome, res.Steps, len(res.Decisions)))
	}
}

// ScratchConfig is for auxiliary executions whose decisions are not part of
// the scenario's tape (e.g. the fault-free pre-run that only builds the fault menu).
func (rc *RunCtx) ScratchConfig() simrt.Config {
	sc := rc.sc
	return simrt.Config{Seed: simrt.Mix(sc.Sched.Seed, 0xa0a0), Policy: simrt.Policy(sc.Sched.Policy), PCTDepth: sc.Sched.PCTDepth, MemYields: sc.Sched.MemYields}
}

func (rc *RunCtx) Logf(format string, a ...any) {
	if rc.KeepLog {
		rc.Log = append(rc.Log, fmt.Sprintf(format, a...))
	}
}

// Bubble runs f inside a fresh synctest bubble. A goroutine still blocked when
// f returns makes synctest panic; that is recovered and reported as leak text.
func (rc *RunCtx) Bubble(f func()) (leak string) {
	defer func() {
		if r := recover(); r != nil {
			leak = fmt.Sprint(r)
		}
	}()
	synctest.Test(rc.T, func(t *testing.T) {
		abortsBefore := simrt.Aborts()
		f()
		if simrt.Aborts() != abortsBefore {
			// an aborted run leaves its tasks frozen or asleep; waking the sleepers now would
			// let them run on without a scheduler. They stay behind (aborted runs are rare).
			return
		}
		// Time stops when this function returns, and a goroutine still asleep then
		// stays behind for the life of the process with everything it references.
		// Let pending timers of finished executions fire (no scheduler is active any
		// more, so whatever wakes runs through and exits).
		for i := 0; i < 3; i++ {
			time.Sleep(1000 * time.Hour)
			synctest.Wait()
		}
	})
	return ""
}

// Sim runs main under the scheduler inside a fresh bubble. setup runs in the
// bubble before the scheduler starts (pass-through mode); after runs in the
// bubble after the scheduler finished (pass-through mode).
func (rc *RunCtx) Sim(setup func(), main func(), after func(res simrt.Result)) (simrt.Result, string) {
	var res simrt.Result
	leak := rc.Bubble(func() {
		if setup != nil {
			setup()
		}
		res = simrt.Run(rc.NextConfig(), main)
		rc.Done(res)
		if after != nil {
			after(res)
		}
	})
	return res, leak
}

// ---------- known findings ----------

type KnownFinding struct {
	Property    string `json:"property"`
	Signature   string `json:"signature"`
	Status      string `json:"status"` // "open" or "fixed"
	Commit      string `json:"commit,omitempty"`
	Description string `json:"description"`
}

func loadKnown(path string) []KnownFinding {
	var out struct {
		Findings []KnownFinding `json:"findings"`
	}
	b, err := os.ReadFile(path)
	if err != nil {
		return nil
	}
	if err := json.Unmarshal(b, &out); err != nil {
		panic("known_findings.json: " + err.Error())
	}
	return out.Findings
}

// ---------- shard output ----------

type ViolationOut struct {
	Class     string `json:"class"`
	Signature string `json:"signature"`
	Detail    string `json:"detail"`
	Replay    string `json:"replay"`
	Seed      uint64 `json:"seed"`
	Index     int    `json:"index"`
}

type KnownOut struct {
	Signature   string `json:"signature"`
	Description string `json:"description"`
}

type ShardOut struct {
	Evaluations      int                 `json:"evaluations"`
	NontrivialHashes []string            `json:"nontrivial_hashes"`
	StateHashes      []string            `json:"state_hashes"`
	FaultsFired      map[string]int      `json:"faults_fired"`
	Probes           map[string]int      `json:"probes"`
	Outcomes         map[string]int      `json:"outcomes"`
	SimSeconds       float64             `json:"sim_seconds"`
	Steps            int                 `json:"steps"`
	Samples          []any               `json:"samples"`
	Violations       []ViolationOut      `json:"violations"`
	Known            []KnownOut          `json:"known"`
	Trouble          []string            `json:"trouble"`
	Rule             string              `json:"rule"`
	Components       map[string][]string `json:"components"`
	Assumptions      []string            `json:"assumptions"`
	Extra            map[string]any      `json:"extra"`
	RunHashes        []string            `json:"run_hashes,omitempty"`
	ReplayInfo       map[string]any      `json:"replay_info,omitempty"`
}

func envInt(k string, def int) int {
	if v := os.Getenv(k); v != "" {
		if n, err := strconv.Atoi(v); err == nil {
			return n
		}
	}
	return def
}

func strHash(s string) uint64 {
	h := fnv.New64a()
	h.Write([]byte(s))
	return h.Sum64()
}

func hashJSON(v any) uint64 {
	b, _ := json.Marshal(v)
	h := fnv.New64a()
	h.Write(b)
	return h.Sum64()
}

// genScenario builds scenario idx of the batch.
func genScenario(p Property, base uint64, tier string, idx int) *Scenario {
	seed := simrt.Mix(simrt.Mix(base, strHash(p.ID())), uint64(idx))
	r := NewRand(seed)
	params := p.Gen(r, tier, idx)
	raw, err := json.Marshal(params)
	if err != nil {
		panic(err)
	}
	sc := &Scenario{Prop: p.ID(), Seed: seed, Index: idx, Params: raw}
	sr := NewRand(simrt.Mix(seed, 0x5c4ed))
	sc.Sched.Seed = sr.U64()
	switch x := sr.Intn(10); {
	case x < 5:
		sc.Sched.Policy = int(simrt.PolRandom)
	case x < 8:
		sc.Sched.Policy = int(simrt.PolPCT)
		sc.Sched.PCTDepth = sr.Range(1, 4)
	case x < 9:
		sc.Sched.Policy = int(simrt.PolSeq)
	default:
		sc.Sched.Policy = int(simrt.PolLast)
	}
	sc.Sched.ShuffleMaps = sr.Chance(0.5)
	sc.Sched.MemYields = sr.Chance(0.25)
	return sc
}

func runOne(t *testing.T, p Property, sc *Scenario, diskRoot string, n int, keepLog bool) (*RunInfo, *RunCtx) {
	dir := filepath.Join(diskRoot, fmt.Sprintf("r%d", n))
	os.RemoveAll(dir)
	if err := os.MkdirAll(dir, 0o755); err != nil {
		panic(err)
	}
	defer func() {
		// blobs are read-only; make removable
		filepath.Walk(dir, func(p string, fi os.FileInfo, err error) error {
			if err == nil && fi.IsDir() {
				os.Chmod(p, 0o755)
			}
			return nil
		})
		os.RemoveAll(dir)
	}()
	rc := &RunCtx{T: t, DiskDir: dir, KeepLog: keepLog, sc: sc}
	simrt.ShuffleMaps.Store(sc.Sched.ShuffleMaps)
	simsync.ResetPools() // package-level pools of the code under test start every scenario empty
	info := p.Run(rc, sc)
	info.Decisions = rc.Recorded
	return info, rc
}

// Main is the body of TestSim.
func Main(t *testing.T) {
	propID := os.Getenv("VERIF_PROP")
	p := registry[propID]
	if p == nil {
		t.Fatalf("unknown property %q", propID)
	}
	tier := os.Getenv("VERIF_TIER")
	if tier == "" {
		tier = "quick"
	}
	base := uint64(envInt("VERIF_SEED", 1))
	shard, shards := envInt("VERIF_SHARD", 0), envInt("VERIF_SHARDS", 1)
	budget := time.Duration(envInt("VERIF_BUDGET", 30)) * time.Second
	maxRuns := envInt("VERIF_MAXRUNS", 0)
	outPath := os.Getenv("VERIF_OUT")
	diskRoot := os.Getenv("VERIF_DISK")
	if diskRoot == "" {
		diskRoot = filepath.Join(os.TempDir(), fmt.Sprintf("verif-disk-%d", os.Getpid()))
	}
	os.MkdirAll(diskRoot, 0o755)
	defer os.RemoveAll(diskRoot)
	replayDir := os.Getenv("VERIF_REPLAYDIR")
	known := loadKnown(os.Getenv("VERIF_KNOWN"))

	out := &ShardOut{FaultsFired: map[string]int{}, Probes: map[string]int{}, Outcomes: map[string]int{}, Extra: map[string]any{},
		Rule: p.Rule(), Components: p.Components(), Assumptions: p.Assumptions()}
	defer func() {
		if outPath != "" {
			b, _ := json.MarshalIndent(out, "", " ")
			os.WriteFile(outPath, b, 0o644)
		}
	}()

	// wall-clock watchdog: a run that never returns to the scheduler (a spin
	// without yields) cannot be detected in simulated time.
	progress := make(chan struct{}, 1)
	go func() {
		for {
			select {
			case <-progress:
			case <-time.After(240 * time.Second):
				buf := make([]byte, 1<<20)
				n := runtime.Stack(buf, true)
				fmt.Fprintf(os.Stderr, "WATCHDOG: a single scenario ran for 240s wall-clock\n%s\n", buf[:n])
				os.Exit(2)
			}
		}
	}()
	tick := func() {
		select {
		case progress <- struct{}{}:
		default:
		}
	}

	if rp := os.Getenv("VERIF_REPLAY"); rp != "" {
		b, err := os.ReadFile(rp)
		if err != nil {
			t.Fatal(err)
		}
		var sc Scenario
		if err := json.Unmarshal(b, &sc); err != nil {
			t.Fatal(err)
		}
		if w := sc.Warmup; w != nil && w.Shards > 0 {
			k := 0
			for idx := w.Shard; idx < w.Upto; idx += w.Shards {
				tick()
				k++
				runOne(t, p, genScenario(p, w.Base, w.Tier, idx), diskRoot, k, false)
			}
			if w.Regen {
				regen := genScenario(p, w.Base, w.Tier, w.Upto)
				regen.Warmup = w
				sc = *regen
			}
		}
		info, rc := runOne(t, p, &sc, diskRoot, 0, true)
		out.Evaluations = 1
		out.ReplayInfo = map[string]any{"outcome": info.Outcome, "steps": info.Steps}
		if info.V != nil {
			out.Violations = append(out.Violations, ViolationOut{Class: info.V.Class, Signature: info.V.Signature, Detail: info.V.Detail, Replay: rp})
			fmt.Printf("REPLAY VIOLATION class=%s sig=%s\n%s\n", info.V.Class, info.V.Signature, info.V.Detail)
		}
		if lp := os.Getenv("VERIF_LOGOUT"); lp != "" {
			os.WriteFile(lp, []byte(strings.Join(rc.Log, "\n")+"\n"), 0o644)
		}
		return
	}

	selftest := envInt("VERIF_SELFTEST", 0)
	nontriv := map[uint64]bool{}
	states := map[uint64]bool{}
	start := time.Now()
	n := 0
	for idx := shard; ; idx += shards {
		if selftest > 0 {
			if n >= selftest {
				break
			}
		} else if time.Since(start) > budget || (maxRuns > 0 && n >= maxRuns) {
			break
		}
		tick()
		sc := genScenario(p, base, tier, idx)
		info, _ := runOne(t, p, sc, diskRoot, n, false)
		n++
		if info.Evals > 0 {
			out.Evaluations += info.Evals
		} else {
			out.Evaluations++
		}
		for _, h := range info.MoreHashes {
			nontriv[h] = true
		}
		if selftest > 0 {
			out.RunHashes = append(out.RunHashes, fmt.Sprintf("%016x/%016x/%s", info.CaseHash, info.StateHash, verdictStr(info.V)))
		}
		if info.Nontrivial {
			nontriv[info.CaseHash] = true
		}
		states[info.StateHash] = true
		for k, v := range info.Faults {
			out.FaultsFired[k] += v
		}
		for k, v := range info.Probes {
			out.Probes[k] += v
		}
		out.Outcomes[info.Outcome]++
		out.SimSeconds += info.SimTime.Seconds()
		out.Steps += info.Steps
		if u, _ := out.Extra["unknown_yields"].(int); true {
			out.Extra["unknown_yields"] = u + info.Unknown
		}
		if len(out.Samples) < 2 && info.Sample != nil {
			out.Samples = append(out.Samples, info.Sample)
		}
		if info.V == nil {
			continue
		}
		if kf := matchKnown(known, p.ID(), info.V.Signature); kf != nil {
			if len(out.Known) < 50 {
				out.Known = append(out.Known, KnownOut{Signature: kf.Signature, Description: kf.Description})
			}
			continue
		}
		// violation: record decisions, minimise, write replay file
		sc.Sched.Decisions = info.Decisions
		sc.Sched.Explicit = true
		min := minimise(t, p, sc, info.V, diskRoot, known, tick)
		min.Class, min.Detail = info.V.Class, info.V.Detail
		// final detail from the minimised run
		mi, mrc := runOne(t, p, cloneScenario(min), diskRoot, 0, true)
		if mi.V != nil {
			min.Class, min.Detail = mi.V.Class, mi.V.Detail
		}
		os.MkdirAll(replayDir, 0o755)
		path := filepath.Join(replayDir, fmt.Sprintf("%s-%d-%d.json", p.ID(), base, idx))
		b, _ := json.MarshalIndent(min, "", " ")
		os.WriteFile(path, b, 0o644)
		os.WriteFile(strings.TrimSuffix(path, ".json")+".log", []byte(strings.Join(mrc.Log, "\n")+"\n"), 0o644)
		out.Violations = append(out.Violations, ViolationOut{Class: info.V.Class, Signature: info.V.Signature, Detail: min.Detail, Replay: path, Seed: sc.Seed, Index: idx})
		break
	}
	for h := range nontriv {
		out.NontrivialHashes = append(out.NontrivialHashes, fmt.Sprintf("%016x", h))
	}
	sort.Strings(out.NontrivialHashes)
	for h := range states {
		out.StateHashes = append(out.StateHashes, fmt.Sprintf("%016x", h))
	}
	sort.Strings(out.StateHashes)
}

func verdictStr(v *Verdict) string {
	if v == nil {
		return "ok"
	}
	return v.Class + ":" + v.Signature
}

func matchKnown(known []KnownFinding, prop, sig string) *KnownFinding {
	if sig == "" {
		return nil
	}
	for i := range known {
		k := &known[i]
		if k.Property == prop && k.Status == "open" && k.Signature == sig {
			return k
		}
	}
	return nil
}

func cloneScenario(sc *Scenario) *Scenario {
	c := *sc
	c.Params = append(json.RawMessage(nil), sc.Params...)
	c.Sched.Decisions = append([]uint64(nil), sc.Sched.Decisions...)
	return &c
}

// minimise shrinks a failing scenario while the same violation class (and
// signature) persists.
func minimise(t *testing.T, p Property, sc *Scenario, v *Verdict, diskRoot string, known []KnownFinding, tick func()) *Scenario {
	best := cloneScenario(sc)
	deadline := time.Now().Add(60 * time.Second)
	same := func(c *Scenario) bool {
		tick()
		info, _ := runOne(t, p, cloneScenario(c), diskRoot, 0, false)
		return info.V != nil && info.V.Class == v.Class && info.V.Signature == v.Signature
	}
	if !same(best) {
		return best // not even reproducible in-process; the driver will flag it
	}
	improved := true
	for improved && time.Now().Before(deadline) {
		improved = false
		// 1. workload / fault plan
		for _, cand := range p.Shrink(best.Params) {
			if time.Now().After(deadline) {
				break
			}
			c := cloneScenario(best)
			c.Params = cand
			if same(c) {
				best = c
				improved = true
				break
			}
		}
		if improved {
			continue
		}
		// 2. schedule: truncate, then zero entries
		d := best.Sched.Decisions
		for cut := len(d) / 2; cut >= 1 && time.Now().Before(deadline); cut /= 2 {
			if len(best.Sched.Decisions) < cut {
				continue
			}
			c := cloneScenario(best)
			c.Sched.Decisions = c.Sched.Decisions[:len(c.Sched.Decisions)-cut]
			if same(c) {
				best = c
				improved = true
			}
		}
		d = best.Sched.Decisions
		for i := 0; i < len(d) && time.Now().Before(deadline); i++ {
			if d[i] == 0 {
				continue
			}
			c := cloneScenario(best)
			c.Sched.Decisions[i] = 0
			if same(c) {
				best = c
				d = best.Sched.Decisions
			}
		}
		// trailing zeros are implicit
		for len(best.Sched.Decisions) > 0 && best.Sched.Decisions[len(best.Sched.Decisions)-1] == 0 {
			best.Sched.Decisions = best.Sched.Decisions[:len(best.Sched.Decisions)-1]
		}
	}
	return best
}
