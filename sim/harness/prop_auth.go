package harness

import (
	"context"
	"encoding/base64"
	"encoding/json"
	"fmt"
	"io"
	"net/http"
	"net/url"
	"sort"
	"strings"
	"sync"

	"oras.land/oras-go/v2/registry/remote/auth"
	"oras.land/oras-go/v2/zsim/simrt"
)

type AuthHost struct {
	Name        string `json:"name"`
	Scheme      string `json:"scheme"`                 // none | basic | bearer-dist | bearer-oauth2
	ForeignAuth bool   `json:"foreign_auth,omitempty"` // token realm on auth.example instead of the registry host
	// RealmOn (1-based, 0 = no): the token realm lives on that other registry host, behind its
	// authenticating front end: it challenges anonymous callers with Basic and knows that host's users too
	RealmOn     int    `json:"realm_on,omitempty"`
	ChangeAfter int    `json:"change_after,omitempty"` // after this many requests to the host the scheme becomes NewScheme
	NewScheme   string `json:"new_scheme,omitempty"`
	ScopeStyle  int    `json:"scope_style,omitempty"`  // how the challenge renders the scope string
	PresetToken bool   `json:"preset_token,omitempty"` // the credential carries an access token
	Redirect    bool   `json:"redirect,omitempty"`     // blob GETs are redirected to cdn.example
	NoCred      bool   `json:"no_cred,omitempty"`      // the caller has no credential for this host
	// RedirectTo: blob GETs are redirected to the same path on host #RedirectTo-1, another
	// registry of this world with its own scheme and credentials (0 = no such redirect)
	RedirectTo int `json:"redirect_to,omitempty"`
}

type AuthReq struct {
	Host   int      `json:"host"`
	Repo   string   `json:"repo"`
	Method string   `json:"method"`           // GET | PUT | BLOB
	Hints  []string `json:"hints,omitempty"`  // scope hints put into the context (raw, possibly permuted/duplicated)
	Global bool     `json:"global,omitempty"` // hints given with WithScopes instead of per host
	Task   int      `json:"task,omitempty"`
	// CancelAfter: the request's context is cancelled by another task after that many
	// scheduling steps of its own (0 = never). Such a request may end any way it likes; the
	// point is what the others experience meanwhile.
	CancelAfter int `json:"cancel_after,omitempty"`
}

type AuthParams struct {
	Hosts []AuthHost `json:"hosts"`
	Reqs  []AuthReq  `json:"reqs"`
	Tasks int        `json:"tasks"`
	Cache string     `json:"cache"` // none | shared | single
	// SharedCtx: every request is made with one and the same context, which carries the
	// scope hints of Reqs[0] (given with WithScopes) - as a caller that prepares its context once does
	SharedCtx bool `json:"shared_ctx,omitempty"`
	OAuth2    bool `json:"force_oauth2,omitempty"`
}

type authProp struct{}

func init() { register(&authProp{}) }

func (p *authProp) ID() string { return "C16" }

func (p *authProp) Rule() string {
	return "scenario = 2-4 simulated registry hosts with distinct credentials and schemes (none, Basic, Bearer via distribution or OAuth2 flow, realm on the registry host or on a foreign host, scheme change mid-history, redirects to a CDN host and to another registry - one that shares the host name and differs in the port only when the redirecting registry asks for no authentication), a sequence or concurrent mix (2-6 tasks) of requests through one auth.Client with cache flavour none/shared/single-context and permuted/duplicated/wildcarded scope hints and challenge scopes; every HTTP exchange is a scheduling point; non-trivial = at least one token or Basic credential was obtained and >=2 hosts were addressed, or >=2 tasks interleaved; distinct = distinct (request trace hash)"
}

func (p *authProp) Components() map[string][]string {
	return map[string][]string{
		"real":        {"auth.Client.Do and token fetchers", "auth cache (concurrent, single-context, none)", "auth scope canonicalisation", "auth challenge parser", "internal/syncutil.Once", "net/http.Client (redirect handling, header stripping)"},
		"substituted": {"sync primitives", "channel operations/select (tape-ordered)"},
		"stub":        {"simulated registries, token servers and CDN behind one RoundTripper; every outgoing request is scanned for every known secret"},
	}
}

func (p *authProp) Assumptions() []string {
	return []string{
		"scope strings are well-formed (type:name:actions)",
		"with the single-context cache a token is by design reused for any scope on its host; the scope-set reuse rule is checked for the shared cache only",
		"a request whose context is cancelled, and any request to the same host that overlaps it (it may share the cancelled token fetch), may end any way; the secret-flow, coalescing and reuse rules hold for them as for all others",
	}
}

func hostOnly(h string) string {
	if i := strings.LastIndex(h, ":"); i >= 0 {
		return h[:i]
	}
	return h
}

var authRepos = []string{"lib/app", "team/tool", "x"}

func (p *authProp) Gen(r *Rand, tier string, idx int) any {
	ap := &AuthParams{}
	nh := r.Range(2, 4)
	names := []string{"reg-a.example", "reg-b.example:5000", "reg-c.example", "localhost:5001"}
	if r.Chance(0.3) {
		// registries that share a host name and differ in the port only
		names = pick(r, [][]string{
			{"localhost:5000", "localhost:5001", "localhost:5002", "reg-c.example"},
			{"reg-a.example", "reg-a.example:5000", "reg-a.example:8443", "reg-b.example:5000"},
		})
	}
	for i := 0; i < nh; i++ {
		h := AuthHost{Name: names[i], Scheme: pick(r, []string{"none", "basic", "bearer-dist", "bearer-dist", "bearer-oauth2"}), ForeignAuth: r.Chance(0.4), ScopeStyle: r.Intn(5), Redirect: r.Chance(0.2)}
		if r.Chance(0.15) {
			h.ChangeAfter = r.Range(1, 4)
			h.NewScheme = pick(r, []string{"basic", "bearer-dist", "bearer-oauth2"})
		}
		if strings.HasPrefix(h.Scheme, "bearer") && h.ChangeAfter == 0 && r.Chance(0.1) {
			h.PresetToken = true
		}
		if i > 0 && h.Scheme != "none" && r.Chance(0.15) {
			h.NoCred, h.PresetToken, h.ChangeAfter, h.NewScheme = true, false, 0, ""
		}
		ap.Hosts = append(ap.Hosts, h)
	}
	if r.Chance(0.15) {
		// one host hands its blobs over to another registry host
		a := r.Intn(nh)
		b := (a + 1 + r.Intn(nh-1)) % nh
		// (not between two registries that share a host name: following such a redirect net/http
		// itself keeps the Authorization header, by its own documented policy, whatever the library does)
		if hostOnly(ap.Hosts[a].Name) != hostOnly(ap.Hosts[b].Name) {
			ap.Hosts[a].Redirect, ap.Hosts[a].RedirectTo = false, b+1
			ap.Hosts[a].ChangeAfter, ap.Hosts[a].NewScheme = 0, ""
			ap.Hosts[b].ChangeAfter, ap.Hosts[b].NewScheme = 0, ""
		} else {
			// ... unless the redirecting registry asks for no authentication at all: then no
			// request to it carries an Authorization header, net/http has nothing to keep, and
			// whatever secret the other port receives was sent by the library in answer to that
			// port's own challenge (seeded change C16-14: hosts compared without their ports)
			ap.Hosts[a].Scheme, ap.Hosts[a].PresetToken, ap.Hosts[a].RealmOn, ap.Hosts[a].NoCred = "none", false, 0, false
			ap.Hosts[a].Redirect, ap.Hosts[a].RedirectTo = false, b+1
			ap.Hosts[a].ChangeAfter, ap.Hosts[a].NewScheme = 0, ""
			ap.Hosts[b].ChangeAfter, ap.Hosts[b].NewScheme = 0, ""
		}
	}
	if r.Chance(0.12) {
		// one registry's token realm lives on another registry's host
		a := r.Intn(nh)
		b := (a + 1 + r.Intn(nh-1)) % nh
		if !ap.Hosts[b].NoCred && ap.Hosts[a].RedirectTo == 0 {
			ap.Hosts[a].Scheme, ap.Hosts[a].ForeignAuth, ap.Hosts[a].RealmOn = "bearer-dist", false, b+1
			ap.Hosts[a].ChangeAfter, ap.Hosts[a].NewScheme, ap.Hosts[a].PresetToken = 0, "", false
		}
	}
	ap.Cache = pick(r, []string{"none", "shared", "shared", "single"})
	ap.OAuth2 = r.Chance(0.2)
	ap.Tasks = 1
	if r.Chance(0.5) {
		ap.Tasks = r.Range(2, 6)
		// a scheme change is a point between requests; with concurrent requests some
		// would be in flight across it and legitimately end with 401
		for i := range ap.Hosts {
			ap.Hosts[i].ChangeAfter, ap.Hosts[i].NewScheme = 0, ""
		}
	}
	n := r.Range(2, 14)
	for i := 0; i < n; i++ {
		q := AuthReq{Host: r.Intn(nh), Repo: pick(r, authRepos), Method: pick(r, []string{"GET", "GET", "PUT", "BLOB"})}
		if ap.Tasks > 1 {
			q.Task = r.Intn(ap.Tasks)
			if r.Chance(0.5) && i > 0 {
				// same target as an earlier request: exercises coalescing of one in-flight fetch
				q.Host, q.Repo, q.Method = ap.Reqs[r.Intn(i)].Host, ap.Reqs[0].Repo, ap.Reqs[0].Method
			}
		}
		switch r.Intn(5) {
		case 0: // no hints
		case 1:
			q.Hints = []string{"repository:" + q.Repo + ":pull"}
		case 2:
			q.Hints = []string{"repository:" + q.Repo + ":push,pull", "repository:" + q.Repo + ":pull"}
		case 3:
			q.Hints = []string{"repository:" + q.Repo + ":pull,push", "repository:other:pull", "repository:" + q.Repo + ":push"}
		default:
			q.Hints = []string{"repository:" + q.Repo + ":*", "repository:" + q.Repo + ":pull"}
		}
		q.Global = r.Chance(0.3)
		ap.Reqs = append(ap.Reqs, q)
	}
	if ap.Tasks > 1 && r.Chance(0.25) {
		for k := r.Range(1, 2); k > 0; k-- {
			ap.Reqs[r.Intn(len(ap.Reqs))].CancelAfter = r.Range(1, 12)
		}
	}
	if ap.Tasks > 1 && r.Chance(0.3) {
		ap.SharedCtx = true
		hints := []string{"repository:lib/app:pull", "repository:team/tool:pull,push", "repository:x:pull", "registry:catalog:*", "repository:other:pull"}
		k := r.Range(3, 5)
		for i := range ap.Reqs {
			ap.Reqs[i].Hints, ap.Reqs[i].Global = hints[:k], true
		}
	}
	if ap.Cache == "single" && r.Chance(0.5) {
		// the single-context cache is documented for one context per host (e.g. one
		// repository): in half of its scenarios every request to a host asks for the
		// same scope. In the other half scopes differ: the cache then by design offers a
		// token of another scope set first (clause 5 is judged for the shared cache only),
		// but each request must still end with the registry's non-401 answer within the
		// send and fetch bounds.
		first := map[int]AuthReq{}
		for i, q := range ap.Reqs {
			if f, ok := first[q.Host]; ok {
				ap.Reqs[i].Repo, ap.Reqs[i].Method, ap.Reqs[i].Hints, ap.Reqs[i].Global = f.Repo, f.Method, f.Hints, f.Global
			} else {
				first[q.Host] = q
			}
		}
	}
	return ap
}

func (p *authProp) Shrink(raw json.RawMessage) []json.RawMessage {
	var ap AuthParams
	if json.Unmarshal(raw, &ap) != nil {
		return nil
	}
	var out []json.RawMessage
	for i := len(ap.Reqs) - 1; i >= 0; i-- {
		c := ap
		c.Reqs = append(append([]AuthReq{}, ap.Reqs[:i]...), ap.Reqs[i+1:]...)
		b, _ := json.Marshal(c)
		out = append(out, b)
	}
	if ap.Tasks > 1 {
		c := ap
		c.Tasks = 1
		c.Reqs = nil
		for _, q := range ap.Reqs {
			q.Task = 0
			c.Reqs = append(c.Reqs, q)
		}
		b, _ := json.Marshal(c)
		out = append(out, b)
	}
	return out
}

// ---- the simulated world ----

type issuedToken struct {
	host   int
	scopes []string // as requested from the token server
}

type authRec struct {
	n        int
	task     int
	host     string
	kind     string // registry | token | cdn
	hostIdx  int
	authz    string
	hay      string // URL + headers + body
	status   int
	enter    int
	exit     int
	tokenKey string // token requests: realm|service|canonical scopes
}

type authWorld struct {
	mu       sync.Mutex
	ap       *AuthParams
	recs     []*authRec
	tokens   map[string]issuedToken
	hostReqs []int
	hostDos  []int // completed Client.Do calls per host (scheme changes happen between calls)
	seq      int
	clock    int
	basicAsk []bool // host has challenged with Basic at least once
}

const authRealmHost = "auth.example"
const authCDNHost = "cdn.example"

func (w *authWorld) user(i int) string { return fmt.Sprintf("user%d", i) }
func (w *authWorld) pass(i int) string {
	return fmt.Sprintf("pw-secret-%d-%s", i, strings.Repeat("z", 6))
}
func (w *authWorld) refresh(i int) string { return fmt.Sprintf("refresh-secret-%d-qqqq", i) }
func (w *authWorld) preset(i int) string  { return fmt.Sprintf("preset-access-%d-wwww", i) }
func (w *authWorld) basicToken(i int) string {
	return base64.StdEncoding.EncodeToString([]byte(w.user(i) + ":" + w.pass(i)))
}

func (w *authWorld) realmURL(i int) string {
	h := w.ap.Hosts[i]
	host := h.Name
	if h.ForeignAuth {
		host = authRealmHost
	}
	if h.RealmOn > 0 {
		host = w.ap.Hosts[h.RealmOn-1].Name
	}
	return fmt.Sprintf("https://%s/token/%d", host, i)
}

func (w *authWorld) schemeOf(i int) string {
	h := w.ap.Hosts[i]
	if h.ChangeAfter > 0 && w.hostDos[i] >= h.ChangeAfter {
		return h.NewScheme
	}
	return h.Scheme
}

// credential is what the caller configured for the auth client.
func (w *authWorld) credential(ctx context.Context, hostport string) (auth.Credential, error) {
	for i, h := range w.ap.Hosts {
		if h.Name != hostport {
			continue
		}
		if h.NoCred {
			return auth.EmptyCredential, nil
		}
		c := auth.Credential{Username: w.user(i), Password: w.pass(i)}
		sch := h.Scheme
		if h.ChangeAfter > 0 {
			// credentials must serve both schemes
			if h.NewScheme == "bearer-oauth2" || sch == "bearer-oauth2" {
				c.RefreshToken = w.refresh(i)
			}
		} else if sch == "bearer-oauth2" {
			c.RefreshToken = w.refresh(i)
		}
		if h.PresetToken {
			c = auth.Credential{AccessToken: w.preset(i)}
		}
		return c, nil
	}
	return auth.EmptyCredential, nil
}

func requiredScope(repo, method string) (string, []string) {
	if method == "PUT" {
		return "repository:" + repo, []string{"pull", "push"}
	}
	return "repository:" + repo, []string{"pull"}
}

func canonScopes(scopes []string) []string {
	m := map[string]map[string]bool{}
	for _, s := range scopes {
		for _, part := range strings.Split(s, " ") {
			i := strings.Index(part, ":")
			j := strings.LastIndex(part, ":")
			if i < 0 || j <= i {
				continue
			}
			key := part[:j]
			if m[key] == nil {
				m[key] = map[string]bool{}
			}
			for _, a := range strings.Split(part[j+1:], ",") {
				if a != "" {
					m[key][a] = true
				}
			}
		}
	}
	var out []string
	for k, as := range m {
		if len(as) == 0 {
			continue
		}
		var al []string
		if as["*"] {
			al = []string{"*"}
		} else {
			for a := range as {
				al = append(al, a)
			}
			sort.Strings(al)
		}
		out = append(out, k+":"+strings.Join(al, ","))
	}
	sort.Strings(out)
	return out
}

func covers(granted []string, resource string, actions []string) bool {
	for _, g := range canonScopes(granted) {
		j := strings.LastIndex(g, ":")
		if g[:j] != resource {
			continue
		}
		have := map[string]bool{}
		for _, a := range strings.Split(g[j+1:], ",") {
			have[a] = true
		}
		ok := true
		for _, a := range actions {
			if !have[a] && !have["*"] {
				ok = false
			}
		}
		return ok
	}
	return false
}

func (w *authWorld) challengeScope(h AuthHost, resource string, actions []string) string {
	a := append([]string{}, actions...)
	switch h.ScopeStyle {
	case 1: // reversed
		for i, j := 0, len(a)-1; i < j; i, j = i+1, j-1 {
			a[i], a[j] = a[j], a[i]
		}
	case 2: // duplicated action
		a = append(a, a[0])
	case 3: // two scopes for one resource
		if len(a) > 1 {
			return resource + ":" + a[0] + " " + resource + ":" + a[1]
		}
	case 4: // wildcard
		a = []string{"*"}
	}
	return resource + ":" + strings.Join(a, ",")
}

func (w *authWorld) RoundTrip(req *http.Request) (*http.Response, error) {
	var body []byte
	if req.Body != nil && req.Body != http.NoBody {
		body, _ = io.ReadAll(req.Body)
		req.Body.Close()
	}
	w.mu.Lock()
	w.clock++
	rec := &authRec{n: len(w.recs) + 1, task: simrt.TaskID(), host: req.URL.Host, authz: req.Header.Get("Authorization"), enter: w.clock, hostIdx: -1}
	var sb strings.Builder
	sb.WriteString(req.URL.String())
	for k, vs := range req.Header {
		sb.WriteString("\n" + k + ": " + strings.Join(vs, ","))
	}
	sb.WriteString("\n" + string(body))
	rec.hay = sb.String()
	w.recs = append(w.recs, rec)
	w.mu.Unlock()

	simrt.Yield("http." + req.Method)

	w.mu.Lock()
	defer w.mu.Unlock()
	w.clock++
	rec.exit = w.clock
	resp := func(status int, hdr http.Header, b string) (*http.Response, error) {
		if err := req.Context().Err(); err != nil {
			// the caller went away while the exchange was under way: the server has done its
			// part, the client - like a real transport - gets the context's error
			rec.status = -status
			return nil, err
		}
		rec.status = status
		if hdr == nil {
			hdr = http.Header{}
		}
		simrt.Note("auth http %d %s %s -> %d", rec.n, req.Method, req.URL.Host+req.URL.Path, status)
		return &http.Response{StatusCode: status, Status: http.StatusText(status), Header: hdr, Body: io.NopCloser(strings.NewReader(b)), ContentLength: int64(len(b)), Request: req, Proto: "HTTP/1.1", ProtoMajor: 1, ProtoMinor: 1}, nil
	}
	if req.URL.Host == authCDNHost {
		rec.kind = "cdn"
		return resp(200, nil, "blob-bytes")
	}
	// token endpoints
	if strings.HasPrefix(req.URL.Path, "/token/") {
		rec.kind = "token"
		var i int
		fmt.Sscanf(req.URL.Path, "/token/%d", &i)
		if i < 0 || i >= len(w.ap.Hosts) {
			return resp(404, nil, "")
		}
		rec.hostIdx = i
		var scopes []string
		okCred := false
		if req.Method == http.MethodGet {
			scopes = req.URL.Query()["scope"]
			u, pw, has := req.BasicAuth()
			okCred = !has || (u == w.user(i) && pw == w.pass(i))
			if b := w.ap.Hosts[i].RealmOn; b > 0 && has && u == w.user(b-1) && pw == w.pass(b-1) {
				okCred = true // a user of the host the realm lives on
			}
			if !has {
				okCred = false // this world's registries are private
			}
		} else {
			form, _ := url.ParseQuery(string(body))
			scopes = strings.Fields(form.Get("scope"))
			switch form.Get("grant_type") {
			case "refresh_token":
				okCred = form.Get("refresh_token") == w.refresh(i)
			case "password":
				okCred = form.Get("username") == w.user(i) && form.Get("password") == w.pass(i)
			}
		}
		rec.tokenKey = fmt.Sprintf("%s|%s", w.realmURL(i), strings.Join(canonScopes(scopes), " "))
		if !okCred {
			if w.ap.Hosts[i].RealmOn > 0 {
				return resp(401, http.Header{"Www-Authenticate": {`Basic realm="token service"`}}, `{"errors":[{"code":"UNAUTHORIZED"}]}`)
			}
			return resp(401, nil, `{"errors":[{"code":"UNAUTHORIZED"}]}`)
		}
		w.seq++
		tok := fmt.Sprintf("tok-%d-%d-issued", i, w.seq)
		w.tokens[tok] = issuedToken{host: i, scopes: scopes}
		if req.Method == http.MethodGet && w.seq%2 == 0 {
			return resp(200, nil, `{"token":"`+tok+`"}`)
		}
		return resp(200, nil, `{"access_token":"`+tok+`"}`)
	}
	// registries
	for i, h := range w.ap.Hosts {
		if h.Name != req.URL.Host {
			continue
		}
		rec.kind = "registry"
		rec.hostIdx = i
		w.hostReqs[i]++
		parts := strings.Split(strings.TrimPrefix(req.URL.Path, "/v2/"), "/")
		repo := strings.Join(parts[:len(parts)-2], "/")
		method := req.Method
		resource, actions := requiredScope(repo, method)
		serve := func() (*http.Response, error) {
			if h.RedirectTo > 0 && strings.Contains(req.URL.Path, "/blobs/") && req.Method == http.MethodGet {
				return resp(307, http.Header{"Location": {"https://" + w.ap.Hosts[h.RedirectTo-1].Name + req.URL.Path}}, "")
			}
			if h.Redirect && strings.Contains(req.URL.Path, "/blobs/") && req.Method == http.MethodGet {
				return resp(307, http.Header{"Location": {"https://" + authCDNHost + "/data" + req.URL.Path}}, "")
			}
			return resp(200, nil, "ok")
		}
		switch w.schemeOf(i) {
		case "none":
			return serve()
		case "basic":
			if rec.authz == "Basic "+w.basicToken(i) {
				return serve()
			}
			w.basicAsk[i] = true
			return resp(401, http.Header{"Www-Authenticate": {`Basic realm="Registry Realm"`}}, "")
		default:
			if strings.HasPrefix(rec.authz, "Bearer ") {
				tok := strings.TrimPrefix(rec.authz, "Bearer ")
				if tok == w.preset(i) && h.PresetToken {
					return serve()
				}
				if it, ok := w.tokens[tok]; ok && it.host == i && covers(it.scopes, resource, actions) {
					return serve()
				}
			}
			ch := fmt.Sprintf(`Bearer realm="%s",service="%s",scope="%s"`, w.realmURL(i), h.Name, w.challengeScope(h, resource, actions))
			return resp(401, http.Header{"Www-Authenticate": {ch}}, "")
		}
	}
	return resp(404, nil, "")
}

func (p *authProp) Run(rc *RunCtx, sc *Scenario) *RunInfo {
	info := newInfo()
	var ap AuthParams
	if err := json.Unmarshal(sc.Params, &ap); err != nil {
		info.V = violation("harness", "", "bad params: %v", err)
		return info
	}
	var v *Verdict
	rc.Bubble(func() { v = p.run(rc, &ap, info) })
	info.V = v
	return info
}

type doRec struct {
	q          AuthReq
	task       int
	from, to   int // request record index range (exclusive upper)
	status     int
	err        error
	firstAuthz string
}

func (p *authProp) run(rc *RunCtx, ap *AuthParams, info *RunInfo) *Verdict {
	w := &authWorld{ap: ap, tokens: map[string]issuedToken{}, hostReqs: make([]int, len(ap.Hosts)), hostDos: make([]int, len(ap.Hosts)), basicAsk: make([]bool, len(ap.Hosts))}
	client := &auth.Client{Client: &http.Client{Transport: w}, Credential: w.credential, ForceAttemptOAuth2: ap.OAuth2}
	switch ap.Cache {
	case "shared":
		client.Cache = auth.NewCache()
	case "single":
		client.Cache = auth.NewSingleContextCache()
	}
	var mu sync.Mutex
	var dos []*doRec
	// pure part of the statement: the scope canonicaliser against an independent set-based one
	for _, q := range ap.Reqs {
		if len(q.Hints) == 0 {
			continue
		}
		got := auth.CleanScopes(append([]string{}, q.Hints...))
		want := canonScopes(q.Hints)
		if strings.Join(got, " ") != strings.Join(want, " ") {
			return violation("scope-canonicalisation", "", "CleanScopes(%v) = %v, a set-based canonical form is %v", q.Hints, got, want)
		}
	}
	var sharedCtx context.Context
	if ap.SharedCtx && len(ap.Reqs) > 0 {
		sharedCtx = auth.WithScopes(context.Background(), ap.Reqs[0].Hints...)
		info.Probes["one_context_shared_by_all_requests"]++
	}
	res := simrt.Run(rc.NextConfig(), func() {
		done := make(chan struct{}, ap.Tasks)
		for t := 0; t < ap.Tasks; t++ {
			t := t
			simrt.Go(func() {
				defer func() { done <- struct{}{} }()
				for _, q := range ap.Reqs {
					if q.Task != t {
						continue
					}
					h := ap.Hosts[q.Host]
					ctx := context.Background()
					if sharedCtx != nil {
						ctx = sharedCtx
					} else if len(q.Hints) > 0 {
						if q.Global {
							ctx = auth.WithScopes(ctx, q.Hints...)
						} else {
							ctx = auth.WithScopesForHost(ctx, h.Name, q.Hints...)
						}
					}
					if q.CancelAfter > 0 {
						var cancel context.CancelFunc
						ctx, cancel = context.WithCancel(ctx)
						k := q.CancelAfter
						simrt.Go(func() {
							for i := 0; i < k; i++ {
								simrt.Yield("cancel-wait")
							}
							cancel()
						})
					}
					method, path := q.Method, "/v2/"+q.Repo+"/manifests/latest"
					var body io.Reader
					if q.Method == "BLOB" {
						method, path = "GET", "/v2/"+q.Repo+"/blobs/sha256:abc"
					}
					if q.Method == "PUT" {
						body = strings.NewReader(`{"manifest":"body"}`)
					}
					req, _ := http.NewRequestWithContext(ctx, method, "https://"+h.Name+path, body)
					w.mu.Lock()
					from := len(w.recs)
					w.mu.Unlock()
					resp, err := client.Do(req)
					d := &doRec{q: q, task: simrt.TaskID(), from: from, err: err}
					if err == nil {
						d.status = resp.StatusCode
						resp.Body.Close()
					}
					w.mu.Lock()
					d.to = len(w.recs)
					w.hostDos[q.Host]++
					w.mu.Unlock()
					mu.Lock()
					dos = append(dos, d)
					mu.Unlock()
				}
			})
		}
		for t := 0; t < ap.Tasks; t++ {
			<-done
			simrt.Yield("join")
		}
	})
	rc.Done(res)
	info.absorb(res)
	info.Outcome = string(res.Outcome)
	if res.Outcome != simrt.OK {
		return violation("hang-or-panic", "", "requests did not finish: %s %s %s\n%s", res.Outcome, res.Detail, res.PanicValue, res.PanicStack)
	}
	describe := func() string {
		var lines []string
		for _, r := range w.recs {
			a := r.authz
			if len(a) > 28 {
				a = a[:28] + "…"
			}
			lines = append(lines, fmt.Sprintf("#%d t%d [%d,%d] %s %s -> %d authz=%q", r.n, r.task, r.enter, r.exit, r.kind, r.host, r.status, a))
		}
		return fmt.Sprintf("hosts=%+v cache=%s\n%s", ap.Hosts, ap.Cache, strings.Join(lines, "\n"))
	}
	// 1+2: secrets stay with their registry
	for i, h := range ap.Hosts {
		type secret struct {
			name, val string
			cred      bool // password-like: may go to the advertised realm
		}
		secrets := []secret{{"password", w.pass(i), true}, {"basic credential", w.basicToken(i), true}, {"refresh token", w.refresh(i), true}, {"preset access token", w.preset(i), false}}
		for tok, it := range w.tokens {
			if it.host == i {
				secrets = append(secrets, secret{"issued access token", tok, false})
			}
		}
		for _, r := range w.recs {
			for _, s := range secrets {
				if !strings.Contains(r.hay, s.val) {
					continue
				}
				okDest := false
				if r.kind == "registry" && r.hostIdx == i {
					okDest = true
					if s.cred && !w.basicAsk[i] {
						okDest = false // a password goes to the registry only after it challenged with Basic
					}
				}
				if r.kind == "token" && r.hostIdx == i && s.cred {
					okDest = true // the realm this registry advertised
				}
				if !okDest {
					return violation("secret-leak", "", "the %s of %s appeared in request #%d to %s (%s)\n%s", s.name, h.Name, r.n, r.host, r.kind, describe())
				}
			}
		}
	}
	// 5a: whatever is presented to a registry under a scheme was obtained for that host and scheme
	for _, r := range w.recs {
		if r.kind != "registry" || r.authz == "" {
			continue
		}
		i := r.hostIdx
		switch {
		case strings.HasPrefix(r.authz, "Bearer "):
			tok := strings.TrimPrefix(r.authz, "Bearer ")
			it, issued := w.tokens[tok]
			if !(issued && it.host == i) && !(ap.Hosts[i].PresetToken && tok == w.preset(i)) {
				return violation("token-reused-under-other-scheme", "", "request #%d presents %q as a Bearer token to %s, which no token endpoint issued for that host\n%s", r.n, tok, r.host, describe())
			}
		case strings.HasPrefix(r.authz, "Basic "):
			if strings.TrimPrefix(r.authz, "Basic ") != w.basicToken(i) {
				return violation("token-reused-under-other-scheme", "", "request #%d presents a Basic credential to %s that is not the one configured for it\n%s", r.n, r.host, describe())
			}
		}
	}
	// 3: bounded sends, non-401 answer
	gotCred := false
	hostsSeen := map[int]bool{}
	for _, d := range dos {
		hostsSeen[d.q.Host] = true
		regSends, fetches := 0, 0
		first := ""
		firstSet := false
		for _, r := range w.recs[d.from:d.to] {
			if r.task != d.task {
				continue
			}
			if r.kind == "registry" && r.hostIdx == d.q.Host {
				regSends++
				if !firstSet {
					first, firstSet = r.authz, true
				}
			}
			if r.kind == "token" {
				fetches++
				gotCred = true
			}
		}
		d.firstAuthz = first
		if regSends >= 2 && fetches == 0 && first == "" && d.err == nil && d.status == 200 && strings.HasPrefix(ap.Hosts[d.q.Host].Scheme, "bearer") && !ap.Hosts[d.q.Host].PresetToken {
			info.Probes["token_shared_or_cached_after_challenge"]++
		}
		if regSends == 3 {
			info.Probes["three_sends"]++
		}
		if strings.HasPrefix(first, "Basic ") {
			gotCred = true
		}
		what := fmt.Sprintf("request %s %s %s (task %d, hints %v)", d.q.Method, ap.Hosts[d.q.Host].Name, d.q.Repo, d.task, d.q.Hints)
		disturbed := d.q.CancelAfter > 0
		for _, o := range dos {
			if o.q.CancelAfter > 0 && o.q.Host == d.q.Host && o.from < d.to && d.from < o.to {
				// it may have waited on the token fetch of a request that was cancelled, and shares its failure
				disturbed = true
			}
		}
		if disturbed {
			info.Probes["request_cancelled_or_overlapping_a_cancelled_one"]++
			continue
		}
		if ap.Hosts[d.q.Host].RedirectTo > 0 && d.q.Method == "BLOB" {
			// handed over to another registry, which may ask for credentials of its own: how
			// the request ends is that host's business (its 401 is a legitimate end); where
			// secrets went is judged above like for every other exchange
			info.Probes["redirected_to_other_registry"]++
			if hostOnly(ap.Hosts[d.q.Host].Name) == hostOnly(ap.Hosts[ap.Hosts[d.q.Host].RedirectTo-1].Name) {
				info.Probes["redirected_to_other_port_of_same_host_name"]++
			}
			continue
		}
		if ap.Hosts[d.q.Host].NoCred {
			// no credential for this host: the request legitimately ends with an error or 401
			if d.err == nil && d.status != 401 {
				return violation("authorized-without-credentials", "", "%s succeeded although the caller has no credential for that host\n%s", what, describe())
			}
			info.Probes["host_without_credentials"]++
			continue
		}
		if d.err != nil {
			return violation("request-failed", "", "%s failed although the credentials are valid: %v\n%s", what, d.err, describe())
		}
		if d.status == 401 {
			return violation("unauthorized-with-valid-credentials", "", "%s ended with 401 although the credentials are valid\n%s", what, describe())
		}
		if regSends > 3 {
			return violation("too-many-sends", "", "%s was sent %d times to the registry\n%s", what, regSends, describe())
		}
		if fetches > 1 {
			return violation("too-many-token-fetches", "", "%s fetched %d tokens\n%s", what, fetches, describe())
		}
		// 5: a cached bearer token on the first send was issued for this host and scope set
		if strings.HasPrefix(first, "Bearer ") && ap.Cache == "shared" {
			tok := strings.TrimPrefix(first, "Bearer ")
			if it, ok := w.tokens[tok]; ok {
				if it.host != d.q.Host {
					return violation("token-reused-across-hosts", "", "%s carried a token issued for %s\n%s", what, ap.Hosts[it.host].Name, describe())
				}
				if strings.Join(canonScopes(it.scopes), " ") != strings.Join(canonScopes(d.q.Hints), " ") {
					return violation("token-reused-for-other-scopes", "", "%s (scope set %v) carried a cached token issued for scope set %v\n%s", what, canonScopes(d.q.Hints), canonScopes(it.scopes), describe())
				}
				info.Probes["cached_token_reused"]++
			}
		}
	}
	// 4: no two overlapping fetches for the same token
	if ap.Cache != "none" {
		var toks []*authRec
		for _, r := range w.recs {
			if r.kind == "token" {
				toks = append(toks, r)
			}
		}
		for i := range toks {
			for j := i + 1; j < len(toks); j++ {
				a, b := toks[i], toks[j]
				if a.tokenKey == b.tokenKey && a.enter < b.exit && b.enter < a.exit {
					return violation("token-fetch-not-coalesced", "", "two fetches of the same token (%s) were in flight at the same time: #%d and #%d\n%s", a.tokenKey, a.n, b.n, describe())
				}
			}
		}
		// waiters probe
		seenKey := map[string]int{}
		for _, r := range toks {
			seenKey[r.tokenKey]++
		}
	}
	if (gotCred && len(hostsSeen) >= 2) || res.Choices >= 3 {
		info.Nontrivial = true
	}
	for _, r := range w.recs {
		info.Probes["req_"+r.kind]++
		if r.kind == "cdn" {
			info.Probes["redirect_followed"]++
		}
	}
	info.StateHash = strHash(fmt.Sprint(len(w.recs), len(w.tokens)))
	info.Sample = map[string]any{"hosts": ap.Hosts, "cache": ap.Cache, "tasks": ap.Tasks, "requests": len(ap.Reqs), "http_exchanges": len(w.recs)}
	return nil
}
