// Command instrument rewrites a scratch copy of oras-go so that the simulator
// owns every source of nondeterminism (see DESIGN.md §2.1). The rules are
// syntactic and generic; nothing is keyed to line numbers.
//
// usage: instrument <scratch-module-dir>
package main

import (
	"bytes"
	"fmt"
	"go/ast"
	"go/format"
	"go/token"
	"go/types"
	"os"
	"path/filepath"
	"sort"
	"strconv"
	"strings"

	"golang.org/x/tools/go/packages"
)

const modPath = "oras.land/oras-go/v2"

var importMap = map[string]string{
	"os":                          modPath + "/zsim/simos",
	"sync":                        modPath + "/zsim/simsync",
	"hash/maphash":                modPath + "/zsim/simhash",
	"sync/atomic":                 modPath + "/zsim/simatomic",
	"golang.org/x/sync/errgroup":  modPath + "/zsim/xsync/errgroup",
	"golang.org/x/sync/semaphore": modPath + "/zsim/xsync/semaphore",
}

var importName = map[string]string{
	"os": "os", "sync": "sync", "hash/maphash": "maphash", "sync/atomic": "atomic",
	"golang.org/x/sync/errgroup": "errgroup", "golang.org/x/sync/semaphore": "semaphore",
}

type stats struct {
	files, imports, gos, recvs, sends, selects, mapRanges, memyield int
}

var st stats

func main() {
	if len(os.Args) != 2 {
		fmt.Fprintln(os.Stderr, "usage: instrument <dir>")
		os.Exit(2)
	}
	dir, err := filepath.Abs(os.Args[1])
	if err != nil {
		fatal(err)
	}
	cfg := &packages.Config{
		Mode: packages.NeedName | packages.NeedFiles | packages.NeedCompiledGoFiles | packages.NeedSyntax |
			packages.NeedTypes | packages.NeedTypesInfo | packages.NeedImports | packages.NeedDeps,
		Dir:   dir,
		Tests: false,
		Env:   append(os.Environ(), "GOFLAGS=-mod=mod", "GOPROXY=off", "GOSUMDB=off"),
	}
	pkgs, err := packages.Load(cfg, "./...")
	if err != nil {
		fatal(err)
	}
	bad := false
	for _, p := range pkgs {
		for _, e := range p.Errors {
			fmt.Fprintf(os.Stderr, "instrument: %s: %v\n", p.PkgPath, e)
			bad = true
		}
	}
	if bad {
		os.Exit(2)
	}
	sort.Slice(pkgs, func(i, j int) bool { return pkgs[i].PkgPath < pkgs[j].PkgPath })
	for _, p := range pkgs {
		rel := strings.TrimPrefix(p.PkgPath, modPath)
		if strings.HasPrefix(rel, "/zsim/") && !strings.HasPrefix(rel, "/zsim/xsync/") {
			continue // overlay and harness are not instrumented
		}
		for i, f := range p.Syntax {
			name := p.CompiledGoFiles[i]
			if strings.HasSuffix(name, "_test.go") {
				continue
			}
			if err := rewriteFile(p, f, name); err != nil {
				fatal(fmt.Errorf("%s: %w", name, err))
			}
		}
	}
	fmt.Printf("instrument: files=%d imports=%d go=%d recv=%d send=%d select=%d maprange=%d appendyield=%d\n",
		st.files, st.imports, st.gos, st.recvs, st.sends, st.selects, st.mapRanges, st.memyield)
}

func fatal(err error) {
	fmt.Fprintln(os.Stderr, "instrument:", err)
	os.Exit(2)
}

type rewriter struct {
	pkg       *packages.Package
	file      *ast.File
	needSimrt bool
	tmp       int
	site      string
}

func rewriteFile(p *packages.Package, f *ast.File, name string) error {
	r := &rewriter{pkg: p, file: f}
	rel := name
	if i := strings.Index(name, "/v2scratch/"); i >= 0 {
		rel = name[i+11:]
	}
	r.site = filepath.Base(rel)
	changed := false

	// R1 imports
	for _, imp := range f.Imports {
		path, _ := strconv.Unquote(imp.Path.Value)
		if strings.HasPrefix(path, "golang.org/x/sync/") {
			// every x/sync package is vendored into the scratch module and instrumented
			pkg := strings.TrimPrefix(path, "golang.org/x/sync/")
			imp.Path.Value = strconv.Quote(modPath + "/zsim/xsync/" + pkg)
			if imp.Name == nil {
				imp.Name = ast.NewIdent(pkg[strings.LastIndex(pkg, "/")+1:])
			}
			st.imports++
			changed = true
			continue
		}
		if to, ok := importMap[path]; ok {
			imp.Path.Value = strconv.Quote(to)
			if imp.Name == nil {
				imp.Name = ast.NewIdent(importName[path])
			}
			st.imports++
			changed = true
		}
	}

	// body rules
	for _, d := range f.Decls {
		fd, ok := d.(*ast.FuncDecl)
		if !ok || fd.Body == nil {
			// function literals in var initialisers
			ast.Inspect(d, func(n ast.Node) bool {
				if fl, ok := n.(*ast.FuncLit); ok {
					r.block(fl.Body)
					return false
				}
				return true
			})
			continue
		}
		r.block(fd.Body)
	}
	if r.needSimrt {
		changed = true
		addImport(f, "simrt", modPath+"/zsim/simrt")
	}
	if !changed {
		return nil
	}
	st.files++
	// drop comments (positions are no longer meaningful) except those before
	// the package clause (build constraints, licence)
	var keep []*ast.CommentGroup
	for _, cg := range f.Comments {
		if cg.End() < f.Package {
			keep = append(keep, cg)
		}
	}
	f.Comments = keep
	f.Doc = nil
	var buf bytes.Buffer
	if err := format.Node(&buf, p.Fset, f); err != nil {
		return err
	}
	// re-format from text to normalise
	out, err := format.Source(buf.Bytes())
	if err != nil {
		return fmt.Errorf("generated source does not parse: %w\n%s", err, buf.String())
	}
	return os.WriteFile(name, out, 0644)
}

func addImport(f *ast.File, name, path string) {
	spec := &ast.ImportSpec{Name: ast.NewIdent(name), Path: &ast.BasicLit{Kind: token.STRING, Value: strconv.Quote(path)}}
	for _, d := range f.Decls {
		if gd, ok := d.(*ast.GenDecl); ok && gd.Tok == token.IMPORT {
			gd.Specs = append(gd.Specs, spec)
			if !gd.Lparen.IsValid() {
				gd.Lparen = gd.Pos()
				gd.Rparen = gd.End()
			}
			f.Imports = append(f.Imports, spec)
			return
		}
	}
	gd := &ast.GenDecl{Tok: token.IMPORT, Specs: []ast.Spec{spec}}
	f.Decls = append([]ast.Decl{gd}, f.Decls...)
	f.Imports = append(f.Imports, spec)
}

func (r *rewriter) simrt(fn string) ast.Expr {
	r.needSimrt = true
	return &ast.SelectorExpr{X: ast.NewIdent("simrt"), Sel: ast.NewIdent(fn)}
}

func (r *rewriter) siteLit(n ast.Node, what string) ast.Expr {
	pos := r.pkg.Fset.Position(n.Pos())
	return &ast.BasicLit{Kind: token.STRING, Value: strconv.Quote(fmt.Sprintf("%s:%d:%s", filepath.Base(pos.Filename), pos.Line, what))}
}

func (r *rewriter) yieldStmt(n ast.Node, what string) ast.Stmt {
	return &ast.ExprStmt{X: &ast.CallExpr{Fun: r.simrt("Yield"), Args: []ast.Expr{r.siteLit(n, what)}}}
}

// block rewrites a block in place.
func (r *rewriter) block(b *ast.BlockStmt) {
	if b == nil {
		return
	}
	b.List = r.stmts(b.List)
}

func (r *rewriter) stmts(list []ast.Stmt) []ast.Stmt {
	var out []ast.Stmt
	for _, s := range list {
		appends := isAppendAssign(s)
		out = append(out, r.stmt(s))
		if appends {
			// a task may be preempted between growing a slice (whose backing array may be
			// shared) and the next use of it; only effective in runs with MemYields
			out = append(out, &ast.ExprStmt{X: &ast.CallExpr{Fun: r.simrt("YieldMem"), Args: []ast.Expr{r.siteLit(s, "append")}}})
			st.memyield++
		}
	}
	return out
}

// isAppendAssign: x = append(...), x := append(...), x, y = ..., append(...)
func isAppendAssign(s ast.Stmt) bool {
	as, ok := s.(*ast.AssignStmt)
	if !ok {
		return false
	}
	for _, rhs := range as.Rhs {
		if ce, ok := rhs.(*ast.CallExpr); ok {
			if id, ok := ce.Fun.(*ast.Ident); ok && id.Name == "append" {
				return true
			}
		}
	}
	return false
}

// stmt rewrites one statement and returns its replacement.
func (r *rewriter) stmt(s ast.Stmt) ast.Stmt {
	switch s := s.(type) {
	case nil:
		return nil
	case *ast.BlockStmt:
		r.block(s)
		return s
	case *ast.LabeledStmt:
		s.Stmt = r.stmt(s.Stmt)
		return s
	case *ast.IfStmt:
		s.Init = r.simple(s.Init)
		s.Cond = r.expr(s.Cond)
		r.block(s.Body)
		s.Else = r.stmt(s.Else)
		return s
	case *ast.ForStmt:
		s.Init = r.simple(s.Init)
		s.Cond = r.expr(s.Cond)
		s.Post = r.simple(s.Post)
		r.block(s.Body)
		return s
	case *ast.RangeStmt:
		s.X = r.expr(s.X)
		r.block(s.Body)
		return r.rangeStmt(s)
	case *ast.SwitchStmt:
		s.Init = r.simple(s.Init)
		s.Tag = r.expr(s.Tag)
		for _, c := range s.Body.List {
			cc := c.(*ast.CaseClause)
			for i := range cc.List {
				cc.List[i] = r.expr(cc.List[i])
			}
			cc.Body = r.stmts(cc.Body)
		}
		return s
	case *ast.TypeSwitchStmt:
		s.Init = r.simple(s.Init)
		s.Assign = r.simple(s.Assign)
		for _, c := range s.Body.List {
			cc := c.(*ast.CaseClause)
			cc.Body = r.stmts(cc.Body)
		}
		return s
	case *ast.SelectStmt:
		return r.selectStmt(s)
	case *ast.GoStmt:
		return r.goStmt(s)
	case *ast.DeferStmt:
		s.Call = r.expr(s.Call).(*ast.CallExpr)
		return s
	case *ast.SendStmt:
		st.sends++
		return &ast.ExprStmt{X: &ast.CallExpr{Fun: r.simrt("Send"), Args: []ast.Expr{r.expr(s.Chan), r.expr(s.Value)}}}
	default:
		return r.simple(s)
	}
}

// simple handles simple statements (assign, expr, incdec, return, decl ...).
func (r *rewriter) simple(s ast.Stmt) ast.Stmt {
	switch s := s.(type) {
	case nil:
		return nil
	case *ast.AssignStmt:
		// v, ok := <-ch
		if len(s.Lhs) == 2 && len(s.Rhs) == 1 {
			if u, ok := unparen(s.Rhs[0]).(*ast.UnaryExpr); ok && u.Op == token.ARROW {
				st.recvs++
				s.Rhs[0] = &ast.CallExpr{Fun: r.simrt("Recv2"), Args: []ast.Expr{r.expr(u.X)}}
				for i := range s.Lhs {
					s.Lhs[i] = r.expr(s.Lhs[i])
				}
				return s
			}
		}
		for i := range s.Lhs {
			s.Lhs[i] = r.expr(s.Lhs[i])
		}
		for i := range s.Rhs {
			s.Rhs[i] = r.expr(s.Rhs[i])
		}
		return s
	case *ast.ExprStmt:
		s.X = r.expr(s.X)
		return s
	case *ast.ReturnStmt:
		for i := range s.Results {
			s.Results[i] = r.expr(s.Results[i])
		}
		return s
	case *ast.IncDecStmt:
		s.X = r.expr(s.X)
		return s
	case *ast.DeclStmt:
		if gd, ok := s.Decl.(*ast.GenDecl); ok {
			for _, sp := range gd.Specs {
				if vs, ok := sp.(*ast.ValueSpec); ok {
					if len(vs.Names) == 2 && len(vs.Values) == 1 {
						if u, ok := unparen(vs.Values[0]).(*ast.UnaryExpr); ok && u.Op == token.ARROW {
							st.recvs++
							vs.Values[0] = &ast.CallExpr{Fun: r.simrt("Recv2"), Args: []ast.Expr{r.expr(u.X)}}
							continue
						}
					}
					for i := range vs.Values {
						vs.Values[i] = r.expr(vs.Values[i])
					}
				}
			}
		}
		return s
	case *ast.SendStmt:
		st.sends++
		return &ast.ExprStmt{X: &ast.CallExpr{Fun: r.simrt("Send"), Args: []ast.Expr{r.expr(s.Chan), r.expr(s.Value)}}}
	default:
		return s
	}
}

func unparen(e ast.Expr) ast.Expr {
	for {
		p, ok := e.(*ast.ParenExpr)
		if !ok {
			return e
		}
		e = p.X
	}
}

// expr rewrites an expression: channel receives become simrt.Recv, function
// literals are descended into.
func (r *rewriter) expr(e ast.Expr) ast.Expr {
	if e == nil {
		return nil
	}
	switch e := e.(type) {
	case *ast.UnaryExpr:
		if e.Op == token.ARROW {
			st.recvs++
			return &ast.CallExpr{Fun: r.simrt("Recv"), Args: []ast.Expr{r.expr(e.X)}}
		}
		e.X = r.expr(e.X)
		return e
	case *ast.FuncLit:
		r.block(e.Body)
		return e
	case *ast.CallExpr:
		e.Fun = r.expr(e.Fun)
		for i := range e.Args {
			e.Args[i] = r.expr(e.Args[i])
		}
		return e
	case *ast.ParenExpr:
		e.X = r.expr(e.X)
		return e
	case *ast.BinaryExpr:
		e.X = r.expr(e.X)
		e.Y = r.expr(e.Y)
		return e
	case *ast.SelectorExpr:
		e.X = r.expr(e.X)
		return e
	case *ast.IndexExpr:
		e.X = r.expr(e.X)
		e.Index = r.expr(e.Index)
		return e
	case *ast.SliceExpr:
		e.X = r.expr(e.X)
		e.Low = r.expr(e.Low)
		e.High = r.expr(e.High)
		e.Max = r.expr(e.Max)
		return e
	case *ast.StarExpr:
		e.X = r.expr(e.X)
		return e
	case *ast.TypeAssertExpr:
		e.X = r.expr(e.X)
		return e
	case *ast.KeyValueExpr:
		e.Key = r.expr(e.Key)
		e.Value = r.expr(e.Value)
		return e
	case *ast.CompositeLit:
		for i := range e.Elts {
			e.Elts[i] = r.expr(e.Elts[i])
		}
		return e
	default:
		return e
	}
}

// goStmt: go f(a, b) -> { __f, __a0, __a1 := f, a, b; simrt.Go(func() { __f(__a0, __a1) }) }
func (r *rewriter) goStmt(s *ast.GoStmt) ast.Stmt {
	st.gos++
	call := s.Call
	if fl, ok := call.Fun.(*ast.FuncLit); ok && len(call.Args) == 0 {
		r.block(fl.Body)
		return &ast.ExprStmt{X: &ast.CallExpr{Fun: r.simrt("Go"), Args: []ast.Expr{fl}}}
	}
	r.tmp++
	var lhs, rhs []ast.Expr
	var fn ast.Expr = ast.NewIdent(fmt.Sprintf("__gof%d", r.tmp))
	builtin := false
	if id, ok := call.Fun.(*ast.Ident); ok {
		if _, isBuiltin := r.pkg.TypesInfo.Uses[id].(*types.Builtin); isBuiltin {
			builtin = true // go panic(x), go close(ch): a builtin is not a value
		}
	}
	if builtin {
		fn = call.Fun
	} else {
		lhs = append(lhs, fn)
		rhs = append(rhs, r.expr(call.Fun))
	}
	var args []ast.Expr
	for i, a := range call.Args {
		if bl, ok := a.(*ast.BasicLit); ok {
			args = append(args, bl)
			continue
		}
		if id, ok := a.(*ast.Ident); ok && (id.Name == "nil" || id.Name == "true" || id.Name == "false") {
			args = append(args, id)
			continue
		}
		v := ast.NewIdent(fmt.Sprintf("__goa%d_%d", r.tmp, i))
		lhs = append(lhs, v)
		rhs = append(rhs, r.expr(a))
		args = append(args, v)
	}
	inner := &ast.CallExpr{Fun: fn, Args: args, Ellipsis: call.Ellipsis}
	if call.Ellipsis.IsValid() {
		inner.Ellipsis = 1
	}
	body := &ast.BlockStmt{List: []ast.Stmt{&ast.ExprStmt{X: inner}}}
	goCall := &ast.ExprStmt{X: &ast.CallExpr{Fun: r.simrt("Go"), Args: []ast.Expr{
		&ast.FuncLit{Type: &ast.FuncType{Params: &ast.FieldList{}}, Body: body}}}}
	if len(lhs) == 0 {
		return goCall
	}
	return &ast.BlockStmt{List: []ast.Stmt{
		&ast.AssignStmt{Lhs: lhs, Tok: token.DEFINE, Rhs: rhs},
		goCall,
	}}
}

// rangeStmt: range over a map -> deterministic iterator.
func (r *rewriter) rangeStmt(s *ast.RangeStmt) ast.Stmt {
	tv, ok := r.pkg.TypesInfo.Types[s.X]
	if !ok {
		return s
	}
	if _, isChan := tv.Type.Underlying().(*types.Chan); isChan {
		// for v := range ch { body }  ->  for { v, ok := simrt.Recv2(ch); if !ok { break }; body }
		st.recvs++
		r.tmp++
		okID := ast.NewIdent(fmt.Sprintf("__ok%d", r.tmp))
		var lhs0 ast.Expr = ast.NewIdent("_")
		tok := token.DEFINE
		if s.Key != nil && !isBlank(s.Key) {
			lhs0 = s.Key
			tok = s.Tok
		}
		var pre []ast.Stmt
		if tok == token.ASSIGN {
			// v is an existing variable: declare ok separately
			pre = append(pre,
				&ast.DeclStmt{Decl: &ast.GenDecl{Tok: token.VAR, Specs: []ast.Spec{&ast.ValueSpec{Names: []*ast.Ident{okID}, Type: ast.NewIdent("bool")}}}},
				&ast.AssignStmt{Lhs: []ast.Expr{lhs0, okID}, Tok: token.ASSIGN, Rhs: []ast.Expr{&ast.CallExpr{Fun: r.simrt("Recv2"), Args: []ast.Expr{s.X}}}})
		} else {
			pre = append(pre, &ast.AssignStmt{Lhs: []ast.Expr{lhs0, okID}, Tok: token.DEFINE, Rhs: []ast.Expr{&ast.CallExpr{Fun: r.simrt("Recv2"), Args: []ast.Expr{s.X}}}})
		}
		pre = append(pre, &ast.IfStmt{Cond: &ast.UnaryExpr{Op: token.NOT, X: okID}, Body: &ast.BlockStmt{List: []ast.Stmt{&ast.BranchStmt{Tok: token.BREAK}}}})
		return &ast.ForStmt{Body: &ast.BlockStmt{List: append(pre, s.Body.List...)}}
	}
	if _, isMap := tv.Type.Underlying().(*types.Map); !isMap {
		// type parameters with a map core type
		if tp, ok := tv.Type.(*types.TypeParam); ok {
			if _, isMap := coreType(tp).(*types.Map); !isMap {
				return s
			}
		} else {
			return s
		}
	}
	st.mapRanges++
	r.tmp++
	it := ast.NewIdent(fmt.Sprintf("__it%d", r.tmp))
	var pre []ast.Stmt
	var lhs, rhs []ast.Expr
	if s.Key != nil && !isBlank(s.Key) {
		lhs = append(lhs, s.Key)
		rhs = append(rhs, &ast.SelectorExpr{X: it, Sel: ast.NewIdent("K")})
	}
	if s.Value != nil && !isBlank(s.Value) {
		lhs = append(lhs, s.Value)
		rhs = append(rhs, &ast.SelectorExpr{X: it, Sel: ast.NewIdent("V")})
	}
	if len(lhs) > 0 {
		pre = append(pre, &ast.AssignStmt{Lhs: lhs, Tok: s.Tok, Rhs: rhs})
	}
	body := &ast.BlockStmt{List: append(pre, s.Body.List...)}
	return &ast.ForStmt{
		Init: &ast.AssignStmt{Lhs: []ast.Expr{it}, Tok: token.DEFINE,
			Rhs: []ast.Expr{&ast.CallExpr{Fun: r.simrt("MapIter"), Args: []ast.Expr{s.X}}}},
		Cond: &ast.CallExpr{Fun: &ast.SelectorExpr{X: it, Sel: ast.NewIdent("Next")}},
		Body: body,
	}
}

func coreType(tp *types.TypeParam) types.Type {
	iface, _ := tp.Constraint().Underlying().(*types.Interface)
	if iface == nil {
		return nil
	}
	var core types.Type
	for i := 0; i < iface.NumEmbeddeds(); i++ {
		t := iface.EmbeddedType(i)
		if u, ok := t.(*types.Union); ok && u.Len() == 1 {
			core = u.Term(0).Type().Underlying()
		} else {
			core = t.Underlying()
		}
	}
	return core
}

func isBlank(e ast.Expr) bool {
	id, ok := e.(*ast.Ident)
	return ok && id.Name == "_"
}

// selectStmt: poll the cases in an order drawn from the tape, then block.
func (r *rewriter) selectStmt(s *ast.SelectStmt) ast.Stmt {
	st.selects++
	var clauses []*ast.CommClause
	var def *ast.CommClause
	for _, c := range s.Body.List {
		cc := c.(*ast.CommClause)
		cc.Body = r.stmts(cc.Body)
		// descend into comm expressions for function literals only; the
		// channel operation itself stays a real select case
		if cc.Comm == nil {
			def = cc
			continue
		}
		clauses = append(clauses, cc)
	}
	n := len(clauses)
	if n == 0 {
		return s
	}
	r.tmp++
	perm := ast.NewIdent(fmt.Sprintf("__perm%d", r.tmp))
	done := ast.NewIdent(fmt.Sprintf("__sel%d", r.tmp))
	setDone := func() ast.Stmt {
		return &ast.AssignStmt{Lhs: []ast.Expr{done}, Tok: token.ASSIGN, Rhs: []ast.Expr{ast.NewIdent("true")}}
	}
	withYield := func(cc *ast.CommClause, markDone bool) *ast.CommClause {
		var body []ast.Stmt
		if markDone {
			body = append(body, setDone())
		}
		body = append(body, r.yieldStmt(cc, "select"))
		body = append(body, cc.Body...)
		return &ast.CommClause{Comm: cc.Comm, Body: body}
	}
	var out []ast.Stmt
	out = append(out,
		&ast.AssignStmt{Lhs: []ast.Expr{perm}, Tok: token.DEFINE,
			Rhs: []ast.Expr{&ast.CallExpr{Fun: r.simrt("SelectPerm"), Args: []ast.Expr{&ast.BasicLit{Kind: token.INT, Value: strconv.Itoa(n)}}}}},
		&ast.AssignStmt{Lhs: []ast.Expr{done}, Tok: token.DEFINE, Rhs: []ast.Expr{ast.NewIdent("false")}},
	)
	for pass := 0; pass < n; pass++ {
		sw := &ast.SwitchStmt{
			Tag:  &ast.IndexExpr{X: perm, Index: &ast.BasicLit{Kind: token.INT, Value: strconv.Itoa(pass)}},
			Body: &ast.BlockStmt{},
		}
		for k, cc := range clauses {
			poll := &ast.SelectStmt{Body: &ast.BlockStmt{List: []ast.Stmt{
				withYield(cc, true),
				&ast.CommClause{Comm: nil, Body: nil},
			}}}
			sw.Body.List = append(sw.Body.List, &ast.CaseClause{
				List: []ast.Expr{&ast.BasicLit{Kind: token.INT, Value: strconv.Itoa(k)}},
				Body: []ast.Stmt{poll},
			})
		}
		out = append(out, &ast.IfStmt{Cond: &ast.UnaryExpr{Op: token.NOT, X: done}, Body: &ast.BlockStmt{List: []ast.Stmt{sw}}})
	}
	final := &ast.SelectStmt{Body: &ast.BlockStmt{}}
	for _, cc := range clauses {
		final.Body.List = append(final.Body.List, withYield(cc, false))
	}
	if def != nil {
		final.Body.List = append(final.Body.List, &ast.CommClause{Comm: nil, Body: def.Body})
	}
	out = append(out, &ast.IfStmt{Cond: &ast.UnaryExpr{Op: token.NOT, X: done}, Body: &ast.BlockStmt{List: []ast.Stmt{final}}})
	if terminatingSelect(s) {
		// the original select never completes normally; keep that visible to the compiler
		out = append(out, &ast.ExprStmt{X: &ast.CallExpr{Fun: ast.NewIdent("panic"), Args: []ast.Expr{&ast.BasicLit{Kind: token.STRING, Value: strconv.Quote("simrt: unreachable")}}}})
	}
	return &ast.BlockStmt{List: out}
}

// ---- terminating-statement analysis (Go spec, "Terminating statements") ----

func terminatingSelect(s *ast.SelectStmt) bool {
	for _, c := range s.Body.List {
		cc := c.(*ast.CommClause)
		if !terminatingList(cc.Body) || hasBreak(cc.Body, true) {
			return false
		}
	}
	return true
}

func terminatingList(list []ast.Stmt) bool {
	// trailing empty statements are ignored
	for len(list) > 0 {
		if _, ok := list[len(list)-1].(*ast.EmptyStmt); ok {
			list = list[:len(list)-1]
			continue
		}
		break
	}
	if len(list) == 0 {
		return false
	}
	return terminating(list[len(list)-1])
}

func terminating(s ast.Stmt) bool {
	switch s := s.(type) {
	case *ast.ReturnStmt:
		return true
	case *ast.BranchStmt:
		return s.Tok == token.GOTO
	case *ast.ExprStmt:
		if c, ok := s.X.(*ast.CallExpr); ok {
			if id, ok := c.Fun.(*ast.Ident); ok && id.Name == "panic" {
				return true
			}
		}
		return false
	case *ast.BlockStmt:
		return terminatingList(s.List)
	case *ast.IfStmt:
		if s.Else == nil {
			return false
		}
		return terminatingList(s.Body.List) && terminating(s.Else)
	case *ast.ForStmt:
		return s.Cond == nil && !hasBreak(s.Body.List, true)
	case *ast.LabeledStmt:
		return terminating(s.Stmt)
	case *ast.SelectStmt:
		return terminatingSelect(s)
	case *ast.SwitchStmt:
		hasDefault := false
		for _, c := range s.Body.List {
			cc := c.(*ast.CaseClause)
			if cc.List == nil {
				hasDefault = true
			}
			if hasBreak(cc.Body, true) {
				return false
			}
			if !terminatingList(cc.Body) {
				if n := len(cc.Body); n == 0 || !isFallthrough(cc.Body[n-1]) {
					return false
				}
			}
		}
		return hasDefault
	}
	return false
}

func isFallthrough(s ast.Stmt) bool {
	b, ok := s.(*ast.BranchStmt)
	return ok && b.Tok == token.FALLTHROUGH
}

// hasBreak reports whether the list contains a break that would leave the
// enclosing statement: an unlabeled break not nested in another breakable
// statement, or (conservatively) any labeled break.
func hasBreak(list []ast.Stmt, top bool) bool {
	found := false
	var visit func(n ast.Node, breakable bool)
	visit = func(n ast.Node, breakable bool) {
		if n == nil || found {
			return
		}
		switch n := n.(type) {
		case *ast.BranchStmt:
			if n.Tok == token.BREAK && (n.Label != nil || !breakable) {
				found = true
			}
		case *ast.FuncLit:
			return
		case *ast.ForStmt:
			visit(n.Body, true)
		case *ast.RangeStmt:
			visit(n.Body, true)
		case *ast.SwitchStmt:
			visit(n.Body, true)
		case *ast.TypeSwitchStmt:
			visit(n.Body, true)
		case *ast.SelectStmt:
			visit(n.Body, true)
		case *ast.BlockStmt:
			for _, s := range n.List {
				visit(s, breakable)
			}
		case *ast.IfStmt:
			visit(n.Body, breakable)
			visit(n.Else, breakable)
		case *ast.CaseClause:
			for _, s := range n.Body {
				visit(s, breakable)
			}
		case *ast.CommClause:
			for _, s := range n.Body {
				visit(s, breakable)
			}
		case *ast.LabeledStmt:
			visit(n.Stmt, breakable)
		}
	}
	for _, s := range list {
		visit(s, false)
	}
	return found
}
