#!/usr/bin/env python3
"""Copies each check's own description of what it explores (the "rule" of its evidence file)
into DESIGN.md, between the markers of the section 'As built - what each check explores'."""
import json, glob, os, re
V = os.path.dirname(os.path.dirname(os.path.abspath(__file__)))
rows = []
for f in sorted(glob.glob(os.path.join(V, "evidence", "C*.json"))):
    d = json.load(open(f))
    rule = d.get("coverage", {}).get("rule", "")
    rows.append("* **%s** - %s" % (d["property_id"], rule))
block = "<!-- rules:begin -->\n" + "\n".join(rows) + "\n<!-- rules:end -->"
p = os.path.join(V, "DESIGN.md")
s = open(p).read()
if "<!-- rules:begin -->" in s:
    s = re.sub(r"<!-- rules:begin -->.*?<!-- rules:end -->", lambda m: block, s, flags=re.S)
else:
    head = "### As built — what each check explores (the checks' own rule texts, copied from the evidence files)\n\n"
    s = s.replace("### As built — replay of failures that depend on earlier scenarios", head + block + "\n\n### As built — replay of failures that depend on earlier scenarios", 1)
open(p, "w").write(s)
print("rules of", len(rows), "checks written")
