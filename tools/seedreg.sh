#!/bin/bash
# Re-runs, for every stored seeded change, the first check that reported it, against a scratch
# worktree of /repo with the change applied (no demonstration, no suite run: see tools/seed.py
# recheck for the full evaluation). Prints one line per change; exits 1 if one is no longer reported.
cd "$(dirname "$0")/.."
export MUT_WT=${MUT_WT:-/tmp/verif-seedreg-wt} MUT_EVIDENCE=${MUT_EVIDENCE:-/tmp/verif-seedreg-evidence} MUT_REPLAYS=${MUT_REPLAYS:-/tmp/verif-seedreg-replays} MUT_BUDGET=${MUT_BUDGET:-40}
bad=0
for d in seeded/C*-*/; do
  id=$(basename "$d")
  [ -n "$1" ] && [[ "$id" != $1 ]] && continue
  chk=$(python3 -c "import json,sys; m=json.load(open('$d/meta.json')); c=m.get('caught_by') or []; print(c[0] if c else '')")
  if [ -z "$chk" ]; then echo "$id not reported by any check (recorded as such)"; continue; fi
  out=$(tools/mut.py patch "$d/patch.diff" "$chk" 2>&1 | tail -1)
  case "$out" in
    *"exit=1"*VIOLATION*) echo "$id reported by $chk";;
    *) echo "$id NOT REPORTED by $chk: $out"; bad=1;;
  esac
done
git -C /repo worktree remove --force "$MUT_WT" 2>/dev/null; rm -rf "$MUT_WT" "$MUT_EVIDENCE" "$MUT_REPLAYS"
exit $bad
