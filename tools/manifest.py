#!/usr/bin/env python3
"""Regenerates /verif/MANIFEST.json from the table below (single source of truth)."""
import json, os
V = os.path.dirname(os.path.dirname(os.path.abspath(__file__)))
NA = {
 "C11": "Pure function of (descriptor, tar stream, pre-existing tree): no schedule, clock, fault, crash or history in its quantifier; deterministic simulation has nothing to decide (DESIGN.md §5).",
 "C12": "Pure round-trip of a directory tree under option combinations; quantified over inputs and configurations only (DESIGN.md §5).",
 "C19": "PackManifest is a deterministic function of its options plus one clock read; no interleaving, fault or history (DESIGN.md §5).",
 "C20": "Reference parsing and URL building are pure string functions (DESIGN.md §5).",
}
SIM = "deterministic simulation: seeded scheduler over instrumented real code in a testing/synctest bubble"
CHECKS = {
 "C01": ("exploration", "seeded search over DAGs x store pairings x schedules; post-state oracle against generator ground truth", SIM + "; fault-free; completeness/tag oracle", "4.C01"),
 "C02": ("exploration", "seeded search over schedules x fault placements (error before/after effect, cancellation) drawn from the operations of a fault-free pre-run; invariant checked at every completed destination Push; outcome rules; fault-free retry", SIM + " with fault injection at the storage seam; in-run invariant + retry", "4.C02"),
 "C03": ("exploration", "seeded search over DAGs with referrers x start node x depth x filters x source kinds x schedules; lower/upper bound oracle from ground-truth inverse edges", SIM + "; ancestor-closure bounds oracle", "4.C03"),
 "C04": ("exploration", "seeded search over schedules and simulated latency assignments; in-flight gauges, per-node counters and callback trace recorded at the seams", SIM + " with simulated per-operation latency; history monitors", "4.C04"),
 "C06": ("exploration", "seeded search over operation histories on memory/OCI/file stores: sequential histories compared step by step (results and full observable state) with an executable reference model; concurrent histories (2-4 tasks, seeded interleavings at lock/disk-operation granularity) checked with porcupine against the same model plus read-back after quiescence", SIM + "; reference model + porcupine linearizability of recorded histories", "4.C06"),
 "C07": ("exploration", "seeded search over push orders (sequential and concurrent), deletes, GC and reopen; Predecessors of every universe node compared with ground-truth inverse edges after every step", SIM + "; ground-truth predecessor oracle after every step", "4.C07"),
 "C08": ("exploration", "seeded search over OCI-layout histories with restart (reopen via New/NewFromFS/NewFromTar) as an operation; original vs reopened observable state and raw directory validity", SIM + " with restart-as-operation; differential original vs reopened + on-disk validator", "4.C08"),
 "C09": ("exploration", "seeded search over OCI-layout histories with referrer chains, moved tags, tagged referrers and stray files, compared after every step with an executable garbage-collection model; termination by disk-operation budget", SIM + "; executable GC reference model + operation-budget termination check", "4.C09"),
 "C10": ("fault_enumeration", "sampled histories; for each, the victim operation's mutating disk operations are counted and the disk is frozen before every one of them in turn (complete enumeration of crash points per victim); after each crash the directory is reopened by a fresh store and validated", SIM + "; exhaustive crash-point enumeration per sampled history at the disk seam", "4.C10"),
 "C05": ("exploration", "seeded search over descriptor variants x faulty readers (chunking, zero-byte reads, early EOF, error at offset, trailing bytes) x concurrent good/bad pushers under one digest, interleaved at lock and disk-operation granularity, with a watcher task inspecting blobs/ between operations", SIM + " with byte-stream fault seam; visibility oracle during and after the run", "4.C05"),
 "C18": ("fault_enumeration", "sampled config documents and Put/Get/Delete histories; sequential histories compared step by step with a model document and the file on disk; concurrent histories under seeded interleavings checked with porcupine against the final file; for a sampled Put/Delete every mutating disk operation of the save is a crash point (complete enumeration) after which the file must be the complete old or new document", SIM + "; model document + porcupine + exhaustive crash-point enumeration at the disk seam", "4.C18"),
 "C15": ("exploration", "seeded search over the registry's legal freedom (page split, Link header forms, server- or client-side filtering, document size around MaxMetadataBytes), last values and callback failures; delivered items compared with the registry model's list, bytes consumed counted at the response-body seam", "deterministic simulation: real client code against a simulated registry (RoundTripper seam) whose behaviour is drawn from the seed; body-seam byte accounting", "4.C15"),
 "C13": ("exploration", "seeded search over Repository operation histories x registry capability profiles x Repository options x Read/Seek sequences, against a stateful simulated registry that is both reference model and request validator; optionally one single-field corruption of a response, judged when the corrupted field is pinned by the request", "deterministic simulation: real client stack against a simulated registry (RoundTripper seam) with response-corruption injection; model comparison + spec validator", "4.C13"),
 "C14": ("exploration", "seeded search over multisets of referrer push/delete operations issued by 2-6 tasks through one Repository against a registry without the Referrers API, over every interleaving point of the HTTP exchanges and the merge protocol, pre-existing dirty indexes, SkipReferrersGC, and injected failures of index exchanges; listing after quiescence compared with the model of an API-capable registry; a capability-flip probe against a self-contradicting registry", "deterministic simulation: seeded scheduler over the real merge/pool/repository code + simulated registry with failure injection; quiescence oracle against the registry model", "4.C14"),
 "C16": ("exploration", "seeded search over multi-host histories and concurrent request mixes through one auth.Client (cache flavours none/shared/single-context) against simulated registries, token servers and a CDN; every outgoing request is scanned at the innermost RoundTripper for every secret of every host; send/fetch counts per request; overlap of token fetches; scope canonicaliser compared with a set-based one", "deterministic simulation: seeded scheduler over the real auth client/cache/Once code + simulated multi-host world (RoundTripper seam); secret-flow monitor", "4.C16"),
 "C17": ("exploration", "seeded search over server behaviour sequences x body kinds and sizes x policy parameters x cancellation instants, through auth.Client over retry.Transport; bodies recorded per attempt by the simulated server, pauses measured on the simulated clock, plus direct policy questions for attempt numbers up to 200", "deterministic simulation with a simulated clock (testing/synctest) and a fault-sequencing server at the RoundTripper seam; per-attempt body and pause oracle", "4.C17"),
}
ids = [json.loads(l)["id"] for l in open(os.path.join(V, "properties.jsonl"))]
checks = []
for pid, (level, text, tech, ref) in CHECKS.items():
    checks.append({
        "property_id": pid,
        "quick_cmd": "./check %s --tier quick" % pid,
        "thorough_cmd": "./check %s --tier thorough" % pid,
        "evidence_file": "/verif/evidence/%s.json" % pid,
        "replay_cmd_template": "./check %s --replay {path}" % pid,
        "engine": "sim",
        "level_claimed": {"category": level, "text": text, "design_ref": "DESIGN.md §" + ref},
        "level_note": "sampling of schedules/faults/workloads, not enumeration; trusted: instrumentation rules (refinements of behaviour Go leaves unspecified), testing/synctest quiescence, tmpfs, generator ground truth, simulated registry's reading of the distribution spec",
        "technique": tech,
    })
m = {
 "version": 1,
 "setup_cmd": "./check setup",
 "hooks": {"guard": "none", "enable": "no hooks are committed to /repo; every check copies /repo's working tree to a scratch directory, rewrites it with tools/instrument (generic syntactic rules) and builds the harness against that copy",
           "baseline_off_cmd": "cd /repo && go test -vet=off -count=1 -timeout 25m ./...", "source_commits": [], "add_only": True},
 "engines": [{"name": "sim", "path": "/verif/check", "serves_properties": sorted(CHECKS.keys()),
              "kind_free_text": "deterministic simulation with fault injection: source-instrumented scratch copy + seeded scheduler (testing/synctest) + storage/disk/HTTP seams"}],
 "checks": checks,
 "not_applicable": [{"property_id": i, "reason": NA.get(i, "check not built yet (framework under construction)")} for i in ids if i not in CHECKS],
 "notes": "Known findings: /verif/known_findings.json. Sensitivity suite: tools/mut.py. Seeded independent mutations: /verif/seeded/.",
}
json.dump(m, open(os.path.join(V, "MANIFEST.json"), "w"), indent=1)
print("claimed:", sorted(CHECKS.keys()))
