#!/usr/bin/env python3
"""Sensitivity suite: apply deliberate property-breaking edits to a scratch
worktree of /repo and confirm that the quick tier of the named checks reports
them. Nothing is ever applied to /repo itself.

  tools/mut.py list
  tools/mut.py run [name ...]          (default: all)
  tools/mut.py patch <file.diff> <Cxx> [...]   (apply a diff instead of a named mutation)
"""
import json, os, subprocess, sys, shutil, time

VERIF = os.path.dirname(os.path.dirname(os.path.abspath(__file__)))
WT = os.environ.get("MUT_WT", "/tmp/verif-mutwt")
BUDGET = os.environ.get("MUT_BUDGET", "25")

# name -> (properties expected to catch it, [(file, old, new), ...])
M = {}


def m(name, props, *edits):
    M[name] = (props, edits)


m("copy-no-wait-successors", ["C02", "C01"],
  ("copy.go", """				select {
				case <-done:
				case <-ctx.Done():
					return ctx.Err()
				}
""", "				_ = done\n"))
# a defect that depends on state kept across calls (package level): the violation shows in
# the n-th call of a process only, so its scenario does not fail when replayed alone
m("copy-state-kept-across-calls", ["C01"],
  ("copy.go", """func Copy(ctx context.Context, src ReadOnlyTarget, srcRef string, dst Target, dstRef string, opts CopyOptions) (ocispec.Descriptor, error) {""", """var copyCalls int

func Copy(ctx context.Context, src ReadOnlyTarget, srcRef string, dst Target, dstRef string, opts CopyOptions) (ocispec.Descriptor, error) {
	if copyCalls++; copyCalls%40 == 0 {
		return ocispec.Descriptor{}, nil
	}"""))
m("copy-close-done-on-failure", ["C02"],
  ("copy.go", """			if err == nil {
				// mark the content as done on success
				close(done)
			}""", """			close(done)"""))
m("copy-swallow-push-error", ["C02"],
  ("copy.go", """	if err != nil && !errors.Is(err, errdef.ErrAlreadyExists) {
		return newCopyError("Push", CopyErrorOriginDestination, err)
	}
	return nil
}

// copyNode copies""", """	_ = err
	return nil
}

// copyNode copies"""))
m("copy-no-region-end", ["C02", "C01"],
  ("copy.go", """			region.End()
			if err := syncutil.Go(ctx, limiter, fn, successors...); err != nil {""",
   """			if err := syncutil.Go(ctx, limiter, fn, successors...); err != nil {"""))
m("tracker-always-commit", ["C04"],
  ("internal/status/tracker.go", "return status.(chan struct{}), !exists", "return status.(chan struct{}), true || !exists"))
m("copy-postcopy-before-push", ["C04", "C01"],
  ("copy.go", """	if err := doCopyNode(ctx, src, dst, desc); err != nil {
		return err
	}

	if opts.PostCopy != nil {
		return opts.PostCopy(ctx, desc)
	}
	return nil""", """	if opts.PostCopy != nil {
		if err := opts.PostCopy(ctx, desc); err != nil {
			return err
		}
	}
	return doCopyNode(ctx, src, dst, desc)"""))
m("copy-skip-tag-when-root-exists", ["C01"],
  ("copy.go", """		if err := dst.Tag(ctx, root, dstRef); err != nil {
			return newCopyError("Tag", CopyErrorOriginDestination, err)
		}
		return nil
	}

	return nil
}""", """		return nil
	}

	return nil
}"""))
m("findroots-stop-at-first-predecessor", ["C03"],
  ("extendedcopy.go", """				stack.Push(copyutil.NodeInfo{Node: predecessor, Depth: current.Depth + 1})
			}""", """				stack.Push(copyutil.NodeInfo{Node: predecessor, Depth: current.Depth + 1})
				break
			}"""))
m("findroots-depth-off-by-one", ["C03"],
  ("extendedcopy.go", "if opts.Depth > 0 && current.Depth == opts.Depth {", "if opts.Depth > 0 && current.Depth == opts.Depth+1 {"))
m("copy-callback-error-wrapped-away", ["C04"],
  ("copy.go", """	if opts.PostCopy != nil {
		return opts.PostCopy(ctx, desc)
	}
	return nil
}""", """	if opts.PostCopy != nil {
		if err := opts.PostCopy(ctx, desc); err != nil {
			return fmt.Errorf("post copy failed: %v", err)
		}
	}
	return nil
}"""))
m("limit-release-twice", ["C04"],
  ("internal/syncutil/limit.go", """	lr.limiter.Release(1)
	lr.ended = true""", """	lr.limiter.Release(1)
	lr.ended = false"""))
m("successors-drop-subject", ["C01"],
  ("content/graph.go", """		var nodes []ocispec.Descriptor
		if manifest.Subject != nil {
			nodes = append(nodes, *manifest.Subject)
		}
		nodes = append(nodes, manifest.Config)""", """		var nodes []ocispec.Descriptor
		nodes = append(nodes, manifest.Config)"""))
m("limit-go-ignores-error", ["C02"],
  ("internal/syncutil/limit.go", """				if err := fn(egCtx, lr, t); err != nil {
					cancel(err)
					return err
				}""", """				if err := fn(egCtx, lr, t); err != nil {
					return nil
				}"""))
m("filter-annotation-inverted-fetch", ["C03"],
  ("extendedcopy.go", "			if p.Annotations == nil {", "			if p.Annotations != nil {"))

# ---- stores (C05-C10, C18) ----
m("oci-rename-before-verify", ["C05"],
  ("internal/ioutil/io.go", """	if _, err := io.CopyBuffer(dst, vr, buf); err != nil {
		return fmt.Errorf("copy failed: %w", err)
	}
	return vr.Verify()""", """	if _, err := io.CopyBuffer(dst, vr, buf); err != nil {
		return fmt.Errorf("copy failed: %w", err)
	}
	vr.Verify()
	return nil"""))
m("verify-ignores-trailing", ["C05"],
  ("content/reader.go", """	if err := ensureEOF(vr.base.R); err != nil {
		vr.err = err
		return vr.err
	}""", ""))
m("oci-write-blob-in-place", ["C05", "C10"],
  ("content/oci/storage.go", """	fp, err := os.CreateTemp(s.ingestRoot, expected.Digest.Encoded()+"_*")""",
   """	fp, err := os.Create(filepath.Join(s.root, "blobs", expected.Digest.Algorithm().String(), expected.Digest.Encoded()))"""),
  ("content/oci/storage.go", """	if err := os.Rename(ingest, target); err != nil {""", """	if err := error(nil); ingest != target && err != nil {"""))
m("memory-store-before-verify", ["C05"],
  ("internal/cas/memory.go", """	value, err := contentpkg.ReadAll(content, expected)
	if err != nil {
		return err
	}""", """	_ = contentpkg.ReadAll
	value, err := io.ReadAll(content)
	if err != nil {
		return err
	}"""))
m("tag-without-existence-check", ["C06"],
  ("content/memory/memory.go", """	if !exists {
		return fmt.Errorf("%s: %s: %w", desc.Digest, desc.MediaType, errdef.ErrNotFound)
	}
	return s.resolver.Tag(ctx, desc, reference)""", """	_ = exists
	_ = fmt.Errorf
	_ = errdef.ErrNotFound
	return s.resolver.Tag(ctx, desc, reference)"""))
m("oci-untag-not-saving", ["C08", "C06"],
  ("content/oci/oci.go", """	s.tagResolver.Untag(reference)
	if s.AutoSaveIndex {
		return s.saveIndex()
	}
	return nil
}""", """	s.tagResolver.Untag(reference)
	return nil
}"""))
m("memory-push-no-duplicate-check", ["C06"],
  ("internal/cas/memory.go", """	if _, exists := m.content.LoadOrStore(key, value); exists {
		return fmt.Errorf("%s: %s: %w", key.Digest, key.MediaType, errdef.ErrAlreadyExists)
	}
	return nil""", """	m.content.Store(key, value)
	return nil"""),
  ("internal/cas/memory.go", """	if _, exists := m.content.Load(key); exists {
		return fmt.Errorf("%s: %s: %w", key.Digest, key.MediaType, errdef.ErrAlreadyExists)
	}
""", ""))
m("graph-remove-keeps-outgoing-edges", ["C07"],
  ("internal/graph/memory.go", """		predecessorEntry := m.predecessors[successorKey]
		predecessorEntry.Delete(nodeKey)
""", """		predecessorEntry := m.predecessors[successorKey]
"""))
m("graph-index-skips-subject", ["C07"],
  ("content/graph.go", """		var nodes []ocispec.Descriptor
		if index.Subject != nil {
			nodes = append(nodes, *index.Subject)
		}
		return append(nodes, index.Manifests...), nil""", """		var nodes []ocispec.Descriptor
		return append(nodes, index.Manifests...), nil"""))
m("loadindex-no-indexall", ["C07", "C08"],
  ("content/oci/readonlyoci.go", """		plain := descriptor.Plain(desc)
		if err := graph.IndexAll(ctx, fetcher, plain); err != nil {
			return err
		}
	}
	return nil
}

// resolveBlob""", """		plain := descriptor.Plain(desc)
		if err := graph.Index(ctx, fetcher, plain); err != nil {
			return err
		}
	}
	return nil
}

// resolveBlob"""))
m("saveindex-drops-multi-tag", ["C08"],
  ("content/oci/oci.go", """			manifests = append(manifests, desc)
			// mark the digest as tagged for deduplication in step 2
			tagged.Add(desc.Digest)""", """			if !tagged.Contains(desc.Digest) {
				manifests = append(manifests, desc)
			}
			tagged.Add(desc.Digest)"""))
m("loadindex-ignores-refname", ["C08"],
  ("content/oci/readonlyoci.go", """		if ref := desc.Annotations[ocispec.AnnotationRefName]; ref != "" {""", """		if ref := desc.Annotations[ocispec.AnnotationRefName]; ref != "" && len(ref) > 2 {"""))
m("tarfs-offset-error", ["C08"],
  ("internal/fs/tarfs/tarfs.go", "	if _, err := tarFile.Seek(entry.pos, io.SeekStart); err != nil {", "	if _, err := tarFile.Seek(entry.pos+1, io.SeekStart); err != nil {"))
m("istagged-always-false", ["C09"],
  ("content/oci/oci.go", """	tagSet := s.tagResolver.TagSet(desc)
	if tagSet.Contains(string(desc.Digest)) {
		return len(tagSet) > 1
	}
	return len(tagSet) > 0""", """	tagSet := s.tagResolver.TagSet(desc)
	_ = tagSet
	return false"""))
m("graph-dangling-ignores-other-predecessors", ["C09"],
  ("internal/graph/memory.go", """		if len(predecessorEntry) == 0 {
			delete(m.predecessors, successorKey)""", """		if len(predecessorEntry) >= 0 {
			delete(m.predecessors, successorKey)"""))
m("gc-sweeps-tagged-blobs", ["C09"],
  ("content/oci/oci.go", """		plain := descriptor.Plain(desc)
		if err := graph.IndexAll(ctx, s.storage, plain); err != nil {
			return err
		}
		tagged.Add(desc.Digest)""", """		plain := descriptor.Plain(desc)
		if err := graph.Index(ctx, s.storage, plain); err != nil {
			return err
		}
		tagged.Add(desc.Digest)"""))
m("delete-removes-blob-before-index", ["C10"],
  ("content/oci/oci.go", """	danglings := s.graph.Remove(target)
	if untagged && s.AutoSaveIndex {
		err := s.saveIndex()
		if err != nil {
			return nil, err
		}
	}
	if err := s.storage.Delete(ctx, target); err != nil {
		return nil, err
	}
	return danglings, nil""", """	danglings := s.graph.Remove(target)
	if err := s.storage.Delete(ctx, target); err != nil {
		return nil, err
	}
	if untagged && s.AutoSaveIndex {
		err := s.saveIndex()
		if err != nil {
			return nil, err
		}
	}
	return danglings, nil"""))
m("index-write-in-place", ["C10"],
  ("content/oci/oci.go", """	tmpPath := s.indexPath + ".tmp"
	if err := os.WriteFile(tmpPath, indexJSON, 0666); err != nil {
		return err
	}
	if err := os.Rename(tmpPath, s.indexPath); err != nil {
		os.Remove(tmpPath)
		return err
	}
	return nil""", """	return os.WriteFile(s.indexPath, indexJSON, 0666)"""))
m("cred-write-in-place", ["C18"],
  ("registry/remote/credentials/internal/config/config.go", """	// overwrite the config file
	if err := os.Rename(ingest, cfg.path); err != nil {
		return fmt.Errorf("failed to save config file: %w", err)
	}
	return nil""", """	os.Remove(ingest)
	if err := os.WriteFile(cfg.path, jsonBytes, 0600); err != nil {
		return fmt.Errorf("failed to save config file: %w", err)
	}
	return nil"""))
m("cred-rewrite-known-fields-only", ["C18"],
  ("registry/remote/credentials/internal/config/config.go", """	jsonBytes, err := json.MarshalIndent(cfg.content, "", "\\t")""", """	jsonBytes, err := json.MarshalIndent(map[string]json.RawMessage{configFieldAuths: authsBytes}, "", "\\t")"""))
m("cred-save-outside-lock", ["C18"],
  ("registry/remote/credentials/internal/config/config.go", """	cfg.rwLock.Lock()
	defer cfg.rwLock.Unlock()

	authCfg := NewAuthConfig(cred)
	authCfgBytes, err := json.Marshal(authCfg)
	if err != nil {
		return fmt.Errorf("failed to marshal auth field: %w", err)
	}
	cfg.authsCache[serverAddress] = authCfgBytes
	return cfg.saveFile()""", """	authCfg := NewAuthConfig(cred)
	authCfgBytes, err := json.Marshal(authCfg)
	if err != nil {
		return fmt.Errorf("failed to marshal auth field: %w", err)
	}
	cfg.rwLock.Lock()
	cfg.authsCache[serverAddress] = authCfgBytes
	authsBytes, _ := json.Marshal(cfg.authsCache)
	cfg.content[configFieldAuths] = authsBytes
	jsonBytes, _ := json.MarshalIndent(cfg.content, "", "\t")
	cfg.rwLock.Unlock()
	ingest, err := ioutil.Ingest(filepath.Dir(cfg.path), bytes.NewReader(jsonBytes))
	if err != nil {
		return err
	}
	return os.Rename(ingest, cfg.path)"""))
m("cred-wrong-mode", ["C18"],
  ("registry/remote/credentials/internal/ioutil/ioutil.go", "tempFile.Chmod(0600)", "tempFile.Chmod(0644)"))

# ---- remote (C13-C15) ----
m("remote-skip-verify-content-digest", ["C13"],
  ("registry/remote/repository.go", """	if contentDigest != expected {
		return fmt.Errorf(
			"%s %q: invalid response; digest mismatch in %s: received %q when expecting %q",""", """	if contentDigest != expected && false {
		return fmt.Errorf(
			"%s %q: invalid response; digest mismatch in %s: received %q when expecting %q","""))
m("remote-ignore-content-length-mismatch", ["C13"],
  ("registry/remote/repository.go", """		if size := resp.ContentLength; size != -1 && size != target.Size {
			return nil, fmt.Errorf("%s %q: mismatch Content-Length", resp.Request.Method, resp.Request.URL)
		}
		if err := verifyContentDigest(resp, target.Digest); err != nil {
			return nil, err
		}

		// check server range request capability.""", """		if err := verifyContentDigest(resp, target.Digest); err != nil {
			return nil, err
		}

		// check server range request capability."""))
m("seek-wrong-range-arithmetic", ["C13"],
  ("internal/httputil/seek.go", 'req.Header.Set("Range", fmt.Sprintf("bytes=%d-%d", offset, rsc.size-1))', 'req.Header.Set("Range", fmt.Sprintf("bytes=%d-%d", offset+1, rsc.size-1))'))
m("url-extra-path-segment", ["C13"],
  ("registry/remote/url.go", """		buildRepositoryBaseURL(plainHTTP, ref),
		"blobs",
		ref.Reference,""", """		buildRepositoryBaseURL(plainHTTP, ref),
		"blobs", "sha256",
		ref.Reference,"""))
m("manifest-fetch-ignores-media-type", ["C13"],
  ("registry/remote/repository.go", """	if mediaType != target.MediaType {
		return nil, fmt.Errorf("%s %q: mismatch response Content-Type %q: expect %q", resp.Request.Method, resp.Request.URL, mediaType, target.MediaType)
	}""", """	_ = mediaType"""))
m("merge-complete-drops-pending", ["C14"],
  ("internal/syncutil/merge.go", """	m.items = m.pending
	m.status = m.pendingStatus""", """	m.items = nil
	m.status = m.pendingStatus"""))
m("referrers-skip-old-index-delete", ["C14"],
  ("registry/remote/repository.go", """		if s.repo.SkipReferrersGC || oldIndexDesc == nil {
			return nil
		}""", """		if s.repo.SkipReferrersGC || oldIndexDesc == nil || true {
			return nil
		}"""))
m("referrers-capability-without-cas", ["C14"],
  ("registry/remote/repository.go", """	if swapped := atomic.CompareAndSwapInt32(&r.referrersState, referrersStateUnknown, state); !swapped {
		if fact := r.loadReferrersState(); fact != state {""", """	atomic.StoreInt32(&r.referrersState, state)
	if swapped := true; !swapped {
		if fact := r.loadReferrersState(); fact != state {"""))
m("referrers-no-merge-lost-update", ["C14"],
  ("registry/remote/repository.go", """	merge, done := s.repo.referrersMergePool.Get(referrersTag)
	defer done()
	return merge.Do(change, prepare, update)""", """	if err := prepare(); err != nil {
		return err
	}
	return update([]referrerChange{change})"""))
m("referrers-apply-drops-annotations", ["C14"],
  ("registry/remote/repository.go", """		subject = *manifest.Subject
		desc.ArtifactType = manifest.ArtifactType
		if desc.ArtifactType == "" {
			desc.ArtifactType = manifest.Config.MediaType
		}
		desc.Annotations = manifest.Annotations""", """		subject = *manifest.Subject
		desc.ArtifactType = manifest.ArtifactType
		if desc.ArtifactType == "" {
			desc.ArtifactType = manifest.Config.MediaType
		}"""))
m("tags-resend-last-every-page", ["C15"],
  ("registry/remote/repository.go", """		url, err = r.tags(ctx, last, fn, url)
		// clear `last` for subsequent pages
		last = \"\"
""", """		url, err = r.tags(ctx, last, fn, url)
"""))
m("tags-stop-after-first-page", ["C15"],
  ("registry/remote/utils.go", """	link := resp.Header.Get("Link")
	if link == "" {
		return "", errNoLink
	}""", """	link := resp.Header.Get("Link")
	if link == "" || resp.Request.URL.Query().Get("last") != "" {
		return "", errNoLink
	}"""))
m("limitreader-unbounded", ["C15"],
  ("registry/remote/utils.go", """	return io.LimitReader(r, n)""", """	return io.LimitReader(r, n*1000)"""))
m("referrers-skip-client-filter", ["C15"],
  ("registry/remote/repository.go", """			referrers = filterReferrers(referrers, artifactType)
		}
	}""", """			_ = filterTypeArtifactType
		}
	}"""))
m("oci-tags-ignore-last", ["C15"],
  ("content/oci/readonlyoci.go", """		if last != "" && tag <= last {""", """		if last != "" && tag < last {"""))

m("remote-ismanifest-ignores-configured-types", ["C13"],
  ("registry/remote/manifest.go", """	if len(manifestMediaTypes) == 0 {
		manifestMediaTypes = defaultManifestMediaTypes
	}
	for _, mediaType := range manifestMediaTypes {
		if desc.MediaType == mediaType {""", """	for _, mediaType := range defaultManifestMediaTypes {
		if desc.MediaType == mediaType {"""))
m("remote-tag-pushes-unverified-body", ["C13"],
  ("registry/remote/repository.go", """	manifest, err := content.ReadAll(rc, desc)
	if err != nil {
		return err
	}
	return s.push(ctx, desc, bytes.NewReader(manifest), ref.Reference)""", """	return s.push(ctx, desc, rc, ref.Reference)"""))
m("cred-delete-keeps-cache-change-on-failed-save", ["C18"],
  ("registry/remote/credentials/internal/config/config.go", """		// the entry is still in the file: a repeated Delete must try again
		cfg.authsCache[serverAddress] = old
		return err""", """		_ = old
		return err"""))
m("oci-delete-forgets-references-on-failed-save", ["C08"],
  ("content/oci/oci.go", """			for reference, desc := range untagged {
				if tagErr := s.tagResolver.Tag(ctx, desc, reference); tagErr != nil {
					return nil, errors.Join(err, tagErr)
				}
			}
			return nil, err""", """			return nil, err"""))
m("referrers-callback-unsupported-error-triggers-fallback", ["C15"],
  ("registry/remote/repository.go", "if fnErr == nil && errors.Is(err, errdef.ErrUnsupported) {", "if errors.Is(err, errdef.ErrUnsupported) {"))
m("oci-delete-matches-references-by-whole-descriptor", ["C09", "C08"],
  ("content/oci/oci.go", "if desc.Digest == target.Digest {", "if desc.Digest == target.Digest && desc.MediaType == target.MediaType && desc.Size == target.Size {"))
# ---- auth / retry (C16, C17) ----
m("auth-cache-key-without-host", ["C16"],
  ("registry/remote/auth/cache.go", """	entry, ok := cc.cache.Load(registry)
	if !ok {
		return SchemeUnknown, errdef.ErrNotFound
	}""", """	entry, ok := cc.cache.Load("")
	if !ok {
		return SchemeUnknown, errdef.ErrNotFound
	}"""),
  ("registry/remote/auth/cache.go", """	entryValue, ok := cc.cache.Load(registry)
	if !ok {
		return "", errdef.ErrNotFound
	}""", """	entryValue, ok := cc.cache.Load("")
	if !ok {
		return "", errdef.ErrNotFound
	}"""),
  ("registry/remote/auth/cache.go", """	entryValue, exists := cc.cache.LoadOrStore(registry, newEntry)""", """	entryValue, exists := cc.cache.LoadOrStore("", newEntry)"""),
  ("registry/remote/auth/cache.go", """		cc.cache.Store(registry, entry)""", """		cc.cache.Store("", entry)"""))
m("auth-credential-ignores-host", ["C16"],
  ("registry/remote/auth/client.go", """	return c.Credential(ctx, reg)
}""", """	if cred, err := c.Credential(ctx, reg); err != nil || cred != EmptyCredential {
		return cred, err
	}
	// "helpful" fallback: try the credential of a well-known host
	return c.Credential(ctx, "reg-a.example")
}"""))
m("auth-no-coalescing", ["C16"],
  ("registry/remote/auth/cache.go", """	statusValue, _ := cc.status.LoadOrStore(statusKey, syncutil.NewOnce())""", """	statusValue, _ := cc.status.LoadOrStore(statusKey, syncutil.NewOnce())
	statusValue = syncutil.NewOnce()"""))
m("auth-fallback-cache-returns-secondary-result", ["C16"],
  ("registry/remote/auth/cache.go", """	if _, err := fc.secondary.Set(ctx, registry, scheme, key, func(ctx context.Context) (string, error) {
		return token, nil
	}); err != nil {
		return "", err
	}
	return token, nil""", """	return fc.secondary.Set(ctx, registry, scheme, key, func(ctx context.Context) (string, error) {
		return token, nil
	})"""))
m("auth-answers-challenge-of-redirect-target", ["C16"],
  ("registry/remote/auth/client.go", """	if resp.Request != nil && resp.Request.URL != nil && resp.Request.URL.Host != req.URL.Host {""", """	if false {"""))
m("auth-token-key-ignores-scopes", ["C16"],
  ("registry/remote/auth/client.go", """			attemptedKey = strings.Join(scopes, " ")
			token, err := cache.GetToken(ctx, host, SchemeBearer, attemptedKey)""", """			attemptedKey = strings.Join(scopes, " ")
			token, err := cache.GetToken(ctx, host, SchemeBearer, "")"""),
  ("registry/remote/auth/client.go", """		token, err := cache.Set(ctx, host, SchemeBearer, key, func(ctx context.Context) (string, error) {""", """		token, err := cache.Set(ctx, host, SchemeBearer, "", func(ctx context.Context) (string, error) {"""))
m("auth-cleanscopes-no-wildcard-absorb", ["C16"],
  ("registry/remote/auth/scope.go", """				if action == "*" {
					actions = []string{"*"}
					break
				}""", """				if action == "**" {
					actions = []string{"*"}
					break
				}"""))
m("auth-forward-authorization-on-redirect", ["C16"],
  ("registry/remote/auth/client.go", """	for key, values := range c.Header {
		req.Header[key] = append(req.Header[key], values...)
	}
	return c.client().Do(req)""", """	for key, values := range c.Header {
		req.Header[key] = append(req.Header[key], values...)
	}
	if a := req.Header.Get("Authorization"); a != "" {
		req.Header.Set("X-Forwarded-Authorization", a)
	}
	return c.client().Do(req)"""))

m("retry-no-body-rewind", ["C17"],
  ("registry/remote/retry/client.go", """			body, err := req.GetBody()
			if err != nil {
				// failed to rewind the body, so we can't retry
				return resp, respErr
			}
			req.Body = body""", """			_ = req.GetBody"""))
m("retry-one-shot-bodies", ["C17"],
  ("registry/remote/retry/client.go", """			if req.GetBody == nil {
				// body can't be rewound, so we can't retry
				return resp, respErr
			}
			body, err := req.GetBody()
			if err != nil {
				// failed to rewind the body, so we can't retry
				return resp, respErr
			}
			req.Body = body""", """			if req.GetBody != nil {
				body, err := req.GetBody()
				if err != nil {
					return resp, respErr
				}
				req.Body = body
			}"""))
m("retry-ignore-maxretry", ["C17"],
  ("registry/remote/retry/policy.go", """	if attempt >= p.MaxRetry {
		return -1, nil
	}""", """	if attempt >= p.MaxRetry+2 {
		return -1, nil
	}"""))
m("retry-no-clamp-maxwait", ["C17"],
  ("registry/remote/retry/policy.go", """	if backoff > p.MaxWait {
		backoff = p.MaxWait
	}""", ""))
m("retry-ignore-ctx-during-pause", ["C17"],
  ("registry/remote/retry/client.go", """		select {
		case <-ctx.Done():
			timer.Stop()
			return nil, ctx.Err()
		case <-timer.C:
		}""", """		_ = ctx
		<-timer.C"""))
m("auth-no-body-rewind", ["C17"],
  ("registry/remote/auth/client.go", """	if err := rewindRequestBody(req); err != nil {
		return nil, err
	}

	return c.send(req)""", """	return c.send(req)"""))
m("retry-ignore-retry-after", ["C17"],
  ("registry/remote/retry/policy.go", """				if retryAfter, _ := strconv.ParseInt(v, 10, 64); retryAfter > 0 {""", """				if retryAfter, _ := strconv.ParseInt(v, 10, 64); retryAfter > 1000 {"""))


def sh(cmd, **kw):
    return subprocess.run(cmd, **kw)


def fresh_worktree():
    sh(["git", "-C", "/repo", "worktree", "remove", "--force", WT], stderr=subprocess.DEVNULL)
    shutil.rmtree(WT, ignore_errors=True)
    sh(["git", "-C", "/repo", "worktree", "prune"])
    r = sh(["git", "-C", "/repo", "worktree", "add", "--detach", WT, "HEAD"], stdout=subprocess.DEVNULL, stderr=subprocess.PIPE, text=True)
    if r.returncode != 0:
        print(r.stderr)
        sys.exit(2)


def remove_worktree():
    sh(["git", "-C", "/repo", "worktree", "remove", "--force", WT], stderr=subprocess.DEVNULL)
    shutil.rmtree(WT, ignore_errors=True)


def run_checks(props):
    res = {}
    for p in props:
        env = dict(os.environ, VERIF_REPO=WT, VERIF_EVIDENCE_DIR=os.environ.get("MUT_EVIDENCE", "/tmp/verif-mut-evidence"), VERIF_REPLAYS_DIR=os.environ.get("MUT_REPLAYS", "/tmp/verif-mut-replays"))
        t0 = time.time()
        r = sh([os.path.join(VERIF, "check"), p, "--budget", BUDGET], env=env, stdout=subprocess.PIPE, stderr=subprocess.STDOUT, text=True)
        open("/tmp/verif-mut-last-%s.log" % p, "w").write(r.stdout)
        lines = [l for l in r.stdout.splitlines() if l.startswith("VIOLATION") or l.startswith("  class=")]
        res[p] = (r.returncode, lines[:2], time.time() - t0, r.stdout[-600:] if r.returncode == 2 else "")
    return res


def main():
    if len(sys.argv) < 2 or sys.argv[1] == "list":
        for k, (props, _) in M.items():
            print(k, props)
        return
    if sys.argv[1] == "patch":
        fresh_worktree()
        try:
            r = sh(["git", "-C", WT, "apply", os.path.abspath(sys.argv[2])])
            if r.returncode != 0:
                sys.exit(2)
            for p, (rc, lines, dt, tail) in run_checks(sys.argv[3:]).items():
                print("%s exit=%d (%.0fs) %s %s" % (p, rc, dt, " | ".join(lines)[:400], tail))
        finally:
            remove_worktree()
        return
    names = sys.argv[2:] or list(M.keys())
    summary = []
    for name in names:
        props, edits = M[name]
        fresh_worktree()
        try:
            for f, old, new in edits:
                path = os.path.join(WT, f)
                s = open(path).read()
                if old not in s:
                    print("MUTATION %s: pattern not found in %s" % (name, f))
                    summary.append((name, "pattern-missing"))
                    break
                open(path, "w").write(s.replace(old, new, 1))
            else:
                b = sh(["go", "build", "./..."], cwd=WT, env=dict(os.environ, GOFLAGS="-mod=mod", GOPROXY="off"), stdout=subprocess.PIPE, stderr=subprocess.STDOUT, text=True)
                if b.returncode != 0:
                    print("MUTATION %s does not compile:\n%s" % (name, b.stdout[-500:]))
                    summary.append((name, "no-compile"))
                    continue
                res = run_checks(props)
                caught = [p for p, (rc, _, _, _) in res.items() if rc == 1]
                for p, (rc, lines, dt, tail) in res.items():
                    print("  %s: %s exit=%d (%.0fs) %s %s" % (name, p, rc, dt, " | ".join(lines)[:300], tail))
                summary.append((name, "caught by " + ",".join(caught) if caught else "MISSED"))
        finally:
            remove_worktree()
    print("---- summary ----")
    for n, s in summary:
        print("%-45s %s" % (n, s))


if __name__ == "__main__":
    main()
