#!/usr/bin/env python3
"""Ingest and evaluate an independently written property-breaking change.

  tools/seed.py ingest <id> <property> <agent-worktree> <demo-path-relative> <test-regex> <go-package> [checks...]
      verifies in a fresh scratch worktree that the demonstration passes on HEAD and fails with the patch,
      that build and the existing suite still pass with the patch, stores patch + demo + meta.json under
      /verif/seeded/<id>/ and runs the named checks (default: the property's own) against the patched tree.
  tools/seed.py recheck [<id> ...]
      re-runs the checks against every stored seed and updates meta.json / README.md.
"""
import json, os, shutil, subprocess, sys, time

VERIF = os.path.dirname(os.path.dirname(os.path.abspath(__file__)))
WT = "/tmp/verif-seedwt"
ENV = dict(os.environ, GOFLAGS="-mod=mod", GOPROXY="off", GOSUMDB="off", GOTOOLCHAIN="local")
BUDGET = os.environ.get("SEED_BUDGET", "40")


def sh(cmd, **kw):
    return subprocess.run(cmd, stdout=subprocess.PIPE, stderr=subprocess.STDOUT, text=True, **kw)


def fresh():
    sh(["git", "-C", "/repo", "worktree", "remove", "--force", WT])
    shutil.rmtree(WT, ignore_errors=True)
    sh(["git", "-C", "/repo", "worktree", "prune"])
    r = sh(["git", "-C", "/repo", "worktree", "add", "--detach", WT, "HEAD"])
    if r.returncode != 0:
        print(r.stdout)
        sys.exit(2)


def cleanup():
    sh(["git", "-C", "/repo", "worktree", "remove", "--force", WT])
    shutil.rmtree(WT, ignore_errors=True)


def run_checks(checks):
    out = {}
    for c in checks:
        env = dict(os.environ, VERIF_REPO=WT, VERIF_EVIDENCE_DIR="/tmp/verif-seed-evidence", VERIF_REPLAYS_DIR="/tmp/verif-seed-replays")
        t0 = time.time()
        r = sh([os.path.join(VERIF, "check"), c, "--budget", BUDGET], env=env)
        lines = [l for l in r.stdout.splitlines() if l.startswith("VIOLATION") or l.startswith("  class=")]
        out[c] = {"exit": r.returncode, "seconds": round(time.time() - t0), "report": " | ".join(lines[:2])[:600]}
        open("/tmp/verif-seed-last-%s.log" % c, "w").write(r.stdout)
    return out


def evaluate(sid, d, meta, checks):
    fresh()
    try:
        demo_rel = meta["demo_path"]
        os.makedirs(os.path.dirname(os.path.join(WT, demo_rel)), exist_ok=True)
        shutil.copy(os.path.join(d, os.path.basename(demo_rel)), os.path.join(WT, demo_rel))
        cmd = ["go", "test", "-count=1", "-run", meta["demo_regex"], meta["demo_package"]]
        r0 = sh(cmd, cwd=WT, env=ENV)
        meta["demo_passes_without_change"] = r0.returncode == 0
        a = sh(["git", "-C", WT, "apply", os.path.join(d, "patch.diff")])
        if a.returncode != 0:
            print("patch does not apply:", a.stdout)
            meta["patch_applies"] = False
            return meta
        meta["patch_applies"] = True
        r1 = sh(cmd, cwd=WT, env=ENV)
        meta["demo_fails_with_change"] = r1.returncode != 0
        meta["demo_output_with_change"] = r1.stdout[-700:]
        os.remove(os.path.join(WT, demo_rel))
        b = sh(["go", "build", "./..."], cwd=WT, env=ENV)
        meta["builds_with_change"] = b.returncode == 0
        t = sh(["go", "test", "-count=1", "./..."], cwd=WT, env=ENV)
        fails = [l for l in t.stdout.splitlines() if l.startswith("--- FAIL")]
        meta["suite_failures_with_change"] = fails
        meta["suite_passes_with_change"] = all("TestStore_Dir_OverwriteSymlink_RemovalFailed" in f for f in fails)
        meta["checks"] = run_checks(checks)
        meta["caught_by"] = [c for c, v in meta["checks"].items() if v["exit"] == 1]
        meta["ran"] = "demo: %s (in a scratch worktree of /repo HEAD, with and without patch.diff); checks: %s with VERIF_REPO=<patched worktree>, budget %ss" % (" ".join(cmd), ", ".join("./check " + c for c in checks), BUDGET)
    finally:
        cleanup()
    return meta


def readme():
    rows = []
    root = os.path.join(VERIF, "seeded")
    for sid in sorted(os.listdir(root)):
        mp = os.path.join(root, sid, "meta.json")
        if not os.path.exists(mp) or sid in ("superseded", "rejected"):
            continue
        m = json.load(open(mp))
        rows.append("| %s | %s | %s | %s | %s |" % (sid, m["property"], m["summary"].replace("|", "/"), m["needs"].replace("|", "/"), ", ".join(m.get("caught_by", [])) or "**missed**"))
    with open(os.path.join(root, "README.md"), "w") as f:
        f.write("# Independently seeded property-breaking changes\n\nEach was written by a sub-agent that saw only the property text and a scratch worktree. `patch.diff` applies to /repo HEAD; the demonstration fails with it and passes without it (verified, see meta.json).\n\n| id | property | change | needs, to manifest | reported by |\n|---|---|---|---|---|\n")
        f.write("\n".join(rows) + "\n")


def main():
    if sys.argv[1] == "ingest":
        sid, prop, wt, demo_rel, regex, pkg = sys.argv[2:8]
        checks = sys.argv[8:] or [prop]
        d = os.path.join(VERIF, "seeded", sid)
        os.makedirs(d, exist_ok=True)
        shutil.copy(os.path.join(wt, "seed_patch.diff"), os.path.join(d, "patch.diff"))
        shutil.copy(os.path.join(wt, demo_rel), os.path.join(d, os.path.basename(demo_rel)))
        mp = os.path.join(d, "meta.json")
        meta = json.load(open(mp)) if os.path.exists(mp) else {}
        meta.update({"id": sid, "property": prop, "demo_path": demo_rel, "demo_regex": regex, "demo_package": pkg})
        meta.setdefault("summary", "")
        meta.setdefault("needs", "")
        meta = evaluate(sid, d, meta, checks)
        json.dump(meta, open(mp, "w"), indent=1)
        print(json.dumps({k: meta.get(k) for k in ("demo_passes_without_change", "demo_fails_with_change", "builds_with_change", "suite_passes_with_change", "caught_by")}))
        for c, v in meta.get("checks", {}).items():
            print(" ", c, v)
        readme()
    elif sys.argv[1] == "recheck":
        root = os.path.join(VERIF, "seeded")
        ids = sys.argv[2:] or sorted(x for x in os.listdir(root) if os.path.isdir(os.path.join(root, x)) and x not in ("superseded", "rejected"))
        for sid in ids:
            d = os.path.join(root, sid)
            meta = json.load(open(os.path.join(d, "meta.json")))
            checks = list(meta.get("checks", {}).keys()) or [meta["property"]]
            meta = evaluate(sid, d, meta, checks)
            json.dump(meta, open(os.path.join(d, "meta.json"), "w"), indent=1)
            print(sid, "caught by", meta.get("caught_by"))
        readme()
    elif sys.argv[1] == "readme":
        readme()


if __name__ == "__main__":
    main()
